//! The convenience entry points of the object API that the per-property generators do not reach on their own
//! (`*_with_defaults`, `compute*`, typed `finalize`, the alternative constructors, the key pair's kx / precalc helpers):
//! each against the classic function or libsodium, from the check of the property it belongs to.
use crate::common::*;
use crate::sodium;
use dryoc::types::*;
use serde_json::json;

fn differ(out: &mut Out, name: &str, got: Outcome<Vec<u8>>, want: &[u8], rp: serde_json::Value) {
    out.search_evaluations += 1;
    match got {
        Outcome::Ok(v) if v == want => {}
        Outcome::Ok(v) => out.hit(&format!("obj.{}.differs", name), format!("{} gives {} where the reference gives {}", name, hx(&v), hx(want)), rp),
        o => out.hit(&format!("obj.{}.fails", name), format!("{}: {}", name, o.class()), rp),
    }
}

/// C07 / C08: hash and MAC convenience forms
pub fn hashes(out: &mut Out, rng: &mut Rng) {
    use dryoc::auth::Auth;
    use dryoc::generichash::GenericHash;
    use dryoc::onetimeauth::OnetimeAuth;
    use dryoc::sha512::Sha512;
    let key: [u8; 32] = rng.arr();
    for len in [0usize, 1, 15, 16, 17, 63, 64, 65, 127, 128, 129, 300] {
        let msg = rng.bytes(len);
        let cut = rng.below(len as u64 + 1) as usize;
        let (p1, p2) = (msg[..cut].to_vec(), msg[cut..].to_vec());
        let rp = json!({"op":"obj.hashes","key":hx(&key),"msg":hx(&msg),"split":cut});
        let k = || StackByteArray::<32>::from(&key);
        // secret-key authentication
        let want = sodium::auth(&msg, &key);
        differ(out, "auth.compute", guard_total(|| { let m: StackByteArray<32> = Auth::compute(k(), &msg); m.to_vec() }), &want, rp.clone());
        differ(out, "auth.compute_to_vec", guard_total(|| Auth::compute_to_vec(k(), &msg)), &want, rp.clone());
        differ(out, "auth.finalize", guard_total(|| { let mut a = Auth::new(k()); a.update(&p1); a.update(&p2); let m: StackByteArray<32> = a.finalize(); m.to_vec() }), &want, rp.clone());
        differ(out, "auth.finalize.vec", guard_total(|| { let mut a = Auth::new(k()); a.update(&p1); a.update(&p2); let m: Vec<u8> = a.finalize_to_vec(); m }), &want, rp.clone());
        // one-time authentication
        let want = sodium::onetimeauth(&msg, &key);
        differ(out, "onetimeauth.compute", guard_total(|| { let m: StackByteArray<16> = OnetimeAuth::compute(k(), &msg); m.to_vec() }), &want, rp.clone());
        differ(out, "onetimeauth.compute_to_vec", guard_total(|| OnetimeAuth::compute_to_vec(k(), &msg)), &want, rp.clone());
        differ(out, "onetimeauth.finalize", guard_total(|| { let mut a = OnetimeAuth::new(k()); a.update(&p1); a.update(&p2); let m: StackByteArray<16> = a.finalize(); m.to_vec() }), &want, rp.clone());
        // SHA-512
        let want = sodium::sha512(&msg);
        differ(out, "sha512.compute", guard_total(|| { let d: StackByteArray<64> = Sha512::compute(&msg); d.to_vec() }), &want, rp.clone());
        differ(out, "sha512.compute_to_vec", guard_total(|| Sha512::compute_to_vec(&msg)), &want, rp.clone());
        differ(out, "sha512.compute_into_bytes", guard_total(|| { let mut d = StackByteArray::<64>::new_byte_array(); Sha512::compute_into_bytes(&mut d, &msg); d.to_vec() }), &want, rp.clone());
        differ(out, "sha512.finalize", guard_total(|| { let mut s = Sha512::new(); s.update(&p1); s.update(&p2); let d: StackByteArray<64> = s.finalize(); d.to_vec() }), &want, rp.clone());
        differ(out, "sha512.finalize_into_bytes", guard_total(|| { let mut s = Sha512::new(); s.update(&p1); s.update(&p2); let mut d = StackByteArray::<64>::new_byte_array(); s.finalize_into_bytes(&mut d); d.to_vec() }), &want, rp.clone());
        // generic hash, default lengths, keyed and unkeyed
        for keyed in [false, true] {
            let want = sodium::generichash(32, &msg, if keyed { Some(&key[..]) } else { None }).unwrap();
            let ko = if keyed { Some(k()) } else { None };
            differ(out, "generichash.hash_with_defaults", guard(|| { let d: StackByteArray<32> = GenericHash::hash_with_defaults(&msg, ko.as_ref())?; Ok::<_, dryoc::Error>(d.to_vec()) }), &want, rp.clone());
            differ(out, "generichash.hash_with_defaults_to_vec", guard(|| GenericHash::hash_with_defaults_to_vec(&msg, ko.as_ref())), &want, rp.clone());
            differ(out, "generichash.new_with_defaults+finalize", guard(|| { let mut h = GenericHash::new_with_defaults(ko.as_ref())?; h.update(&p1); h.update(&p2); let d: StackByteArray<32> = h.finalize()?; Ok::<_, dryoc::Error>(d.to_vec()) }), &want, rp.clone());
            differ(out, "generichash.new_with_defaults+finalize_to_vec", guard(|| { let mut h = GenericHash::new_with_defaults(ko.as_ref())?; h.update(&p1); h.update(&p2); h.finalize_to_vec() }), &want, rp.clone());
        }
        // generic hash with other length parameters: the typed finalize of GenericHash<KEY, OUT>
        {
            let want = sodium::generichash(64, &msg, Some(&key[..])).unwrap();
            differ(out, "generichash<32,64>.new+finalize", guard(|| { let mut h: GenericHash<32, 64> = GenericHash::new(Some(&k()))?; h.update(&p1); h.update(&p2); let d: StackByteArray<64> = h.finalize()?; Ok::<_, dryoc::Error>(d.to_vec()) }), &want, rp.clone());
            let key16: [u8; 16] = key[..16].try_into().unwrap();
            let want = sodium::generichash(16, &msg, Some(&key16[..])).unwrap();
            differ(out, "generichash<16,16>.hash", guard(|| { let d: StackByteArray<16> = GenericHash::<16, 16>::hash(&msg, Some(&StackByteArray::<16>::from(&key16)))?; Ok::<_, dryoc::Error>(d.to_vec()) }), &want, rp.clone());
        }
    }
}

/// C07: authenticators held in a Vec that is too long (right prefix) or too short are rejected by every verify form
pub fn mac_lengths(out: &mut Out, rng: &mut Rng) {
    use dryoc::auth::Auth;
    use dryoc::onetimeauth::OnetimeAuth;
    let key: [u8; 32] = rng.arr();
    let k = || StackByteArray::<32>::from(&key);
    for len in [0usize, 1, 16, 64, 129] {
        let msg = rng.bytes(len);
        let (a, o) = (sodium::auth(&msg, &key).to_vec(), sodium::onetimeauth(&msg, &key).to_vec());
        for (what, f) in [("extended by a zero byte", 0usize), ("extended by a byte", 1), ("one byte short", 2), ("empty", 3), ("doubled", 4)] {
            let mk = |v: &Vec<u8>| -> Vec<u8> { match f { 0 => [v.clone(), vec![0]].concat(), 1 => [v.clone(), vec![0x5a]].concat(), 2 => v[..v.len() - 1].to_vec(), 3 => vec![], _ => [v.clone(), v.clone()].concat() } };
            let (a2, o2) = (mk(&a), mk(&o));
            out.search_evaluations += 4;
            let rp = json!({"op":"obj.verify.vec-length","key":hx(&key),"msg":hx(&msg),"auth":hx(&a2),"onetimeauth":hx(&o2),"what":what});
            for (name, r) in [("obj.auth.compute_and_verify", guard(|| Auth::compute_and_verify(&a2, k(), &msg))),
                              ("obj.auth.verify", guard(|| { let mut x = Auth::new(k()); x.update(&msg); x.verify(&a2) })),
                              ("obj.onetimeauth.compute_and_verify", guard(|| OnetimeAuth::compute_and_verify(&o2, k(), &msg))),
                              ("obj.onetimeauth.verify", guard(|| { let mut x = OnetimeAuth::new(k()); x.update(&msg); x.verify(&o2) }))] {
                if r.is_ok() { out.hit(&format!("{}.accepts-wrong-length", name), format!("authenticator {} (message of {} bytes)", what, len), rp.clone()); }
                if r.is_panic() { out.hit(&format!("{}.panics-on-wrong-length", name), format!("authenticator {} (message of {} bytes)", what, len), rp.clone()); }
            }
        }
    }
}

/// C07 / C08 / C06: inputs longer than 64 KiB (one update, and pieces around the 65536-byte mark) against libsodium
pub fn long_inputs(out: &mut Out, rng: &mut Rng, sign: bool) {
    use dryoc::sha512::Sha512;
    let key: [u8; 32] = rng.arr();
    for len in [65535usize, 65536, 65537, 100_000, 131_073] {
        let msg = rng.bytes(len);
        let rp = json!({"op":"long-input","len":len,"key":hx(&key),"msg_prefix":hx(&msg[..32])});
        if !sign {
            differ(out, "sha512.compute_to_vec(long)", guard_total(|| Sha512::compute_to_vec(&msg)), &sodium::sha512(&msg), rp.clone());
            differ(out, "sha512.chunks(long)", guard_total(|| crate::c07::d_sha512_chunks(&[&msg[..5], &msg[5..len - 3], &msg[len - 3..]]).to_vec()), &sodium::sha512(&msg), rp.clone());
            differ(out, "auth(long)", guard_total(|| crate::c07::d_auth(&msg, &key).to_vec()), &sodium::auth(&msg, &key), rp.clone());
            differ(out, "auth.chunks(long)", guard_total(|| crate::c07::d_auth_chunks(&key, &[&msg[..70000.min(len)], &msg[70000.min(len)..]]).to_vec()), &sodium::auth(&msg, &key), rp.clone());
            differ(out, "onetimeauth(long)", guard_total(|| crate::c07::d_onetimeauth(&msg, &key).to_vec()), &sodium::onetimeauth(&msg, &key), rp.clone());
            differ(out, "generichash(long)", crate::c07::d_generichash(32, &msg, None), &sodium::generichash(32, &msg, None).unwrap(), rp.clone());
            differ(out, "generichash.chunks(long)", crate::c07::d_generichash_chunks(32, None, &[&msg[..len - 1], &msg[len - 1..]], 32), &sodium::generichash(32, &msg, None).unwrap(), rp.clone());
        } else {
            use dryoc::classic::crypto_sign::*;
            let seed: [u8; 32] = rng.arr();
            let (pk, sk) = sodium::sign_seed_keypair(&seed);
            let want = sodium::sign_detached(&msg, &sk);
            differ(out, "sign.detached(long)", guard(|| { let mut sg = [0u8; 64]; crypto_sign_detached(&mut sg, &msg, &sk)?; Ok::<_, dryoc::Error>(sg.to_vec()) }), &want, rp.clone());
            // a change in the last bytes of a long message must be noticed
            for pos in [len - 1, len - 1000.min(len), 65536.min(len - 1)] {
                let mut m2 = msg.clone(); m2[pos] ^= 1;
                out.search_evaluations += 1;
                let sg: [u8; 64] = want.clone().try_into().unwrap();
                if guard(|| crypto_sign_verify_detached(&sg, &m2, &pk)).is_ok() { out.hit("sign.verify.accepts-changed-long-message", format!("{} bytes, byte {} changed", len, pos), rp.clone()); }
            }
            let chunks: [&[u8]; 1] = [&msg[..]];
            let ph = sodium::sign_ph(&chunks, &sk);
            differ(out, "sign.ph(long, one update)", guard(|| { let mut st = crypto_sign_init(); crypto_sign_update(&mut st, &msg); let mut sg = [0u8; 64]; crypto_sign_final_create(st, &mut sg, &sk)?; Ok::<_, dryoc::Error>(sg.to_vec()) }), &ph, rp.clone());
        }
    }
}

/// C08: an incremental generic hash keyed with a Vec longer than the nominal key length = the one-shot hash with the same key
pub fn generichash_vec_keys(out: &mut Out, rng: &mut Rng) {
    use dryoc::generichash::GenericHash;
    for klen in [32usize, 33, 48, 64] {
        let key = rng.bytes(klen);
        for len in [0usize, 1, 128, 200] {
            let msg = rng.bytes(len);
            let cut = rng.below(len as u64 + 1) as usize;
            let rp = json!({"op":"obj.GenericHash<32,32>.new(Vec key)","key":hx(&key),"msg":hx(&msg),"split":cut});
            let one = guard(|| GenericHash::<32, 32>::hash_to_vec(&msg, Some(&key)));
            let inc = guard(|| { let mut h: GenericHash<32, 32> = GenericHash::new(Some(&key))?; h.update(&msg[..cut].to_vec()); h.update(&msg[cut..].to_vec()); h.finalize_to_vec() });
            out.search_evaluations += 2;
            if one != inc { out.hit("obj.generichash.incremental-differs-from-oneshot.vec-key", format!("key of {} bytes, message of {} bytes", klen, len), rp.clone()); }
            if let (Outcome::Ok(o), Some(l)) = (&one, sodium::generichash(32, &msg, Some(&key))) { if *o != l { out.hit("obj.generichash.vec-key.differs-from-libsodium", format!("key of {} bytes", klen), rp.clone()); } }
        }
    }
}

/// C08: key lengths at and beyond the edges (no key, the empty key, one byte, 15 / 16 / 17, 64 / 65): whatever the one-shot
/// function answers -- a digest or a refusal -- every chunking of the incremental interface answers the same
pub fn generichash_edge_keys(out: &mut Out, rng: &mut Rng) {
    use dryoc::generichash::GenericHash;
    for klen in [None, Some(0usize), Some(1), Some(15), Some(16), Some(17), Some(64), Some(65)] {
        let keyv = klen.map(|k| rng.bytes(k));
        let key = keyv.as_deref();
        for (len, outlen) in [(0usize, 32usize), (1, 32), (127, 32), (128, 32), (129, 32), (300, 32), (0, 64), (1, 64), (127, 64), (128, 64), (129, 64), (256, 64), (384, 64), (1024, 64), (128, 16), (256, 17), (128, 63)] {
            let msg = rng.bytes(len);
            let cut = rng.below(len as u64 + 1) as usize;
            let rp = json!({"op":"generichash.edge-key","key":key.map(hx),"msg":hx(&msg),"split":cut,"outlen":outlen});
            out.search_evaluations += 3;
            let one = crate::c07::d_generichash(outlen, &msg, key);
            for (what, chunks) in [("one piece", vec![&msg[..]]), ("two pieces", vec![&msg[..cut], &msg[cut..]]), ("empty pieces around", vec![&msg[..0], &msg[..cut], &msg[..0], &msg[cut..], &msg[..0]])] {
                let inc = crate::c07::d_generichash_chunks(outlen, key, &chunks, outlen);
                if inc != one { out.hit("generichash.incremental-differs-from-oneshot.edge-key", format!("key {:?} bytes, message {} bytes, {} (one-shot {}, incremental {})", klen, len, what, one.class(), inc.class()), rp.clone()); }
            }
            if let (Outcome::Ok(o), Some(l)) = (&one, sodium::generichash(outlen, &msg, key)) { if klen != Some(0) && *o != l { out.hit("generichash.edge-key.differs-from-libsodium", format!("key {:?} bytes", klen), rp.clone()); } }
        }
        if let Some(k) = &keyv {
            let msg = rng.bytes(40);
            let one = guard(|| GenericHash::<32, 32>::hash_to_vec(&msg, Some(k)));
            let inc = guard(|| { let mut h: GenericHash<32, 32> = GenericHash::new(Some(k))?; h.update(&msg[..7].to_vec()); h.update(&msg[7..].to_vec()); h.finalize_to_vec() });
            if one != inc { out.hit("obj.generichash.incremental-differs-from-oneshot.edge-key", format!("key of {} bytes (one-shot {}, incremental {})", k.len(), one.class(), inc.class()), json!({"op":"obj.GenericHash.edge-key","key":hx(k),"msg":hx(&msg)})); }
        }
    }
}

/// C05: key-exchange convenience forms
pub fn kx(out: &mut Out, rng: &mut Rng) {
    use dryoc::kx::Session;
    for r in 0..4 {
        let (ska, skb): ([u8; 32], [u8; 32]) = (rng.arr(), rng.arr());
        let (pka, pkb) = (sodium::scalarmult_base(&ska), sodium::scalarmult_base(&skb));
        let rp = json!({"op":"obj.kx","client_sk":hx(&ska),"server_sk":hx(&skb),"round":r});
        let (lrx, ltx) = match sodium::kx_client(&pka, &ska, &pkb) { Some(x) => x, None => continue };
        let ckp = dryoc::kx::KeyPair::from_secret_key(StackByteArray::<32>::from(&ska));
        let skp = dryoc::kx::KeyPair::from_secret_key(StackByteArray::<32>::from(&skb));
        let both = |s: &Session<StackByteArray<32>>| [s.rx_as_array().to_vec(), s.tx_as_array().to_vec()].concat();
        let both_slices = |s: &Session<StackByteArray<32>>| [s.rx_as_slice().to_vec(), s.tx_as_slice().to_vec()].concat();
        let want_c = [lrx.to_vec(), ltx.to_vec()].concat();
        let want_s = [ltx.to_vec(), lrx.to_vec()].concat();
        differ(out, "kx.new_client_with_defaults", guard(|| Session::new_client_with_defaults(&ckp, &skp.public_key)).map(|s| both(&s)), &want_c, rp.clone());
        differ(out, "kx.new_server_with_defaults", guard(|| Session::new_server_with_defaults(&skp, &ckp.public_key)).map(|s| both(&s)), &want_s, rp.clone());
        differ(out, "keypair.kx_new_client_session", guard(|| ckp.kx_new_client_session::<StackByteArray<32>>(&skp.public_key)).map(|s| both_slices(&s)), &want_c, rp.clone());
        differ(out, "keypair.kx_new_server_session", guard(|| skp.kx_new_server_session::<StackByteArray<32>>(&ckp.public_key)).map(|s| both_slices(&s)), &want_s, rp.clone());
        differ(out, "kx.into_parts", guard(|| Session::<StackByteArray<32>>::new_client(&ckp, &skp.public_key)).map(|s| { let (rx, tx) = s.into_parts(); [rx.to_vec(), tx.to_vec()].concat() }), &want_c, rp.clone());
        // the session hashes the caller's public key as given (libsodium does): a pair assembled from slices whose public half
        // is another encoding of the point, or unrelated bytes
        for (what, pk2) in [("high bit set", { let mut x = pka; x[31] |= 0x80; x }), ("unrelated", rng.arr::<32>()), ("all zero", [0u8; 32])] {
            let kp2 = match dryoc::kx::KeyPair::from_slices(&pk2, &ska) { Ok(k) => k, Err(_) => { out.hit("kx.keypair.from_slices.fails", what.to_string(), rp.clone()); continue; } };
            let kp2: dryoc::kx::KeyPair = kp2;
            let rp2 = json!({"op":"obj.kx.own-public-key-as-given","own_pk":hx(&pk2),"own_sk":hx(&ska),"peer_pk":hx(&pkb),"what":what});
            if let Some((lrx, ltx)) = sodium::kx_client(&pk2, &ska, &pkb) {
                differ(out, "kx.session.own-public-key-as-given(client)", guard(|| Session::<StackByteArray<32>>::new_client(&kp2, &skp.public_key)).map(|s| both(&s)), &[lrx.to_vec(), ltx.to_vec()].concat(), rp2.clone());
                differ(out, "keypair.kx_new_client_session.own-public-key-as-given", guard(|| kp2.kx_new_client_session::<StackByteArray<32>>(&skp.public_key)).map(|s| both_slices(&s)), &[lrx.to_vec(), ltx.to_vec()].concat(), rp2.clone()); }
            if let Some((lrx, ltx)) = sodium::kx_server(&pk2, &ska, &pkb) {
                differ(out, "kx.session.own-public-key-as-given(server)", guard(|| Session::<StackByteArray<32>>::new_server(&kp2, &skp.public_key)).map(|s| both(&s)), &[lrx.to_vec(), ltx.to_vec()].concat(), rp2.clone()); }
        }
    }
}

/// C01: boxes assembled from their parts by the alternative constructors open like the ones the crate made
pub fn boxes(out: &mut Out, rng: &mut Rng) {
    use dryoc::dryocbox::DryocBox;
    use dryoc::dryocsecretbox::DryocSecretBox;
    for len in [0usize, 1, 16, 77] {
        let m = rng.bytes(len);
        let (k, n): ([u8; 32], [u8; 24]) = (rng.arr(), rng.arr());
        let (ska, skb): ([u8; 32], [u8; 32]) = (rng.arr(), rng.arr());
        let (pka, pkb) = (sodium::scalarmult_base(&ska), sodium::scalarmult_base(&skb));
        let rp = json!({"op":"obj.box-constructors","len":len,"key":hx(&k),"nonce":hx(&n),"msg":hx(&m)});
        // secret box
        let sb = sodium::secretbox_easy(&m, &n, &k);
        let tag: [u8; 16] = sb[..16].try_into().unwrap();
        differ(out, "secretbox.with_data_and_mac+decrypt", guard(|| { let bx: DryocSecretBox<StackByteArray<16>, Vec<u8>> = DryocSecretBox::with_data_and_mac(StackByteArray::<16>::from(&tag), &sb[16..]); bx.decrypt_to_vec(&StackByteArray::<24>::from(&n), &StackByteArray::<32>::from(&k)) }), &m, rp.clone());
        differ(out, "secretbox.from_parts+to_vec", guard_total(|| { let bx: DryocSecretBox<StackByteArray<16>, Vec<u8>> = DryocSecretBox::from_parts(StackByteArray::<16>::from(&tag), sb[16..].to_vec()); bx.to_vec() }), &sb, rp.clone());
        {   // with_data: an all-zero tag (so the box made of a valid body must NOT open), and the data is kept as given
            out.search_evaluations += 1;
            let bx: DryocSecretBox<StackByteArray<16>, Vec<u8>> = DryocSecretBox::with_data(&sb[16..]);
            let (t, d) = bx.into_parts();
            if t.as_array() != &[0u8; 16] || d != sb[16..].to_vec() { out.hit("obj.secretbox.with_data.differs", format!("tag {} data {}", hx(t.as_array()), hx(&d)), rp.clone()); }
        }
        // public-key box
        let bb = sodium::box_easy(&m, &n, &pkb, &ska).unwrap();
        let btag: [u8; 16] = bb[..16].try_into().unwrap();
        differ(out, "box.new_with_data_and_mac+decrypt", guard(|| { let bx: DryocBox<StackByteArray<32>, StackByteArray<16>, Vec<u8>> = DryocBox::new_with_data_and_mac(StackByteArray::<16>::from(&btag), &bb[16..]); bx.decrypt_to_vec(&StackByteArray::<24>::from(&n), &StackByteArray::<32>::from(&pka), &StackByteArray::<32>::from(&skb)) }), &m, rp.clone());
        // a precomputed key is just a secretbox key: every 32-byte value, the all-zero one included (libsodium's afternm forms accept any)
        for pk_ in [[0u8; 32], [0xffu8; 32], k] {
            let want = sodium::secretbox_easy(&m, &n, &pk_);
            let pre = StackByteArray::<32>::from(&pk_);
            differ(out, "box.precalc_encrypt(edge key)", guard(|| dryoc::dryocbox::VecBox::precalc_encrypt_to_vecbox(&m, &StackByteArray::<24>::from(&n), &pre)).map(|b| b.to_vec()), &want, rp.clone());
            differ(out, "box.precalc_decrypt(edge key)", guard(|| dryoc::dryocbox::VecBox::from_bytes(&want).and_then(|b| b.precalc_decrypt_to_vec(&StackByteArray::<24>::from(&n), &pre))), &m, rp.clone());
        }
        // sealed box
        let sealed = sodium::box_seal(&m, &pkb);
        let epk: [u8; 32] = sealed[..32].try_into().unwrap();
        let stag: [u8; 16] = sealed[32..48].try_into().unwrap();
        let kpb = dryoc::dryocbox::KeyPair::from_secret_key(StackByteArray::<32>::from(&skb));
        differ(out, "box.new_with_epk_data_and_mac+unseal", guard(|| { let bx: DryocBox<StackByteArray<32>, StackByteArray<16>, Vec<u8>> = DryocBox::new_with_epk_data_and_mac(StackByteArray::<32>::from(&epk), StackByteArray::<16>::from(&stag), &sealed[48..]); bx.unseal_to_vec(&kpb) }), &m, rp.clone());
        differ(out, "box.from_parts(sealed)+to_vec", guard_total(|| { let bx: DryocBox<StackByteArray<32>, StackByteArray<16>, Vec<u8>> = DryocBox::from_parts(StackByteArray::<16>::from(&stag), sealed[48..].to_vec(), Some(StackByteArray::<32>::from(&epk))); bx.to_vec() }), &sealed, rp.clone());
    }
}

/// C09 / C10: the preset entry points of PwHash (random salt: the result is checked by recomputing it)
pub fn pwhash(out: &mut Out, rng: &mut Rng, thorough: bool) {
    use dryoc::pwhash::{PwHash, VecPwHash};
    let pw = rng.bytes(13);
    let mut presets: Vec<(&str, u64, usize)> = vec![("hash_interactive", 2, 64 * 1024 * 1024), ("hash_with_defaults", 2, 64 * 1024 * 1024)];
    if thorough { presets.push(("hash_moderate", 3, 256 * 1024 * 1024)); }
    for (name, ops, mem) in presets {
        out.search_evaluations += 1;
        let r: Outcome<VecPwHash> = guard(|| match name { "hash_interactive" => PwHash::hash_interactive(&pw), "hash_with_defaults" => PwHash::hash_with_defaults(&pw), _ => PwHash::hash_moderate(&pw) });
        let rp = json!({"op":format!("obj.PwHash.{}", name),"password":hx(&pw)});
        match r {
            Outcome::Ok(h) => {
                let s = h.to_string();
                let (hash, salt, _cfg) = h.clone().into_parts();
                let salt16: Option<[u8; 16]> = salt.as_slice().try_into().ok();
                let want = salt16.and_then(|s16| sodium::pwhash(hash.len(), &pw, &s16, ops, mem, 2));
                if want.as_deref() != Some(&hash[..]) || hash.len() != 32 { out.hit(&format!("obj.pwhash.{}.differs-from-libsodium", name), format!("costs ({}, {}), hash of {} bytes, salt of {} bytes", ops, mem, hash.len(), salt.len()), json!({"op":name,"password":hx(&pw),"salt":hx(&salt),"hash":hx(&hash)})); }
                if !guard(|| h.verify(&pw)).is_ok() { out.hit(&format!("obj.pwhash.{}.does-not-verify", name), "own password rejected".into(), rp.clone()); }
                if !sodium::pwhash_str_verify(&s, &pw) { out.hit(&format!("obj.pwhash.{}.string-rejected-by-libsodium", name), s.clone(), rp.clone()); }
                match guard(|| VecPwHash::from_string_with_defaults(&s)) {
                    Outcome::Ok(p2) => { if p2.to_string() != s { out.hit("obj.pwhash.from_string_with_defaults.reencodes-differently", format!("{} -> {}", s, p2.to_string()), rp.clone()); } if !guard(|| p2.verify(&pw)).is_ok() { out.hit("obj.pwhash.from_string_with_defaults.does-not-verify", s.clone(), rp.clone()); } }
                    o => out.hit("obj.pwhash.from_string_with_defaults.fails", o.class().to_string(), rp.clone()),
                }
            }
            o => out.hit(&format!("obj.pwhash.{}.fails", name), o.class().to_string(), rp),
        }
    }
}

/// C01: the remaining classic box forms (detached, in place, with a precomputed key)
pub fn classic_box_forms(out: &mut Out, rng: &mut Rng) {
    use dryoc::classic::crypto_box::*;
    for len in [0usize, 1, 16, 65, 300] {
        let m = rng.bytes(len);
        let n: [u8; 24] = rng.arr();
        let (ska, skb): ([u8; 32], [u8; 32]) = (rng.arr(), rng.arr());
        let pkb = sodium::scalarmult_base(&skb);
        let want = sodium::box_easy(&m, &n, &pkb, &ska).unwrap();          // tag || ciphertext
        let rp = json!({"op":"box.classic-forms","len":len,"nonce":hx(&n),"pk":hx(&pkb),"sk":hx(&ska),"msg":hx(&m)});
        let key = crypto_box_beforenm(&pkb, &ska);
        differ(out, "box.detached_afternm", guard_total(|| { let (mut c, mut mac) = (vec![0u8; len], [0u8; 16]); crypto_box_detached_afternm(&mut c, &mut mac, &m, &n, &key); [mac.to_vec(), c].concat() }), &want, rp.clone());
        differ(out, "box.detached_afternm_inplace", guard_total(|| { let (mut c, mut mac) = (m.clone(), [0u8; 16]); crypto_box_detached_afternm_inplace(&mut c, &mut mac, &n, &key); [mac.to_vec(), c].concat() }), &want, rp.clone());
        differ(out, "box.detached_inplace", guard(|| { let (mut c, mut mac) = (m.clone(), [0u8; 16]); crypto_box_detached_inplace(&mut c, &mut mac, &n, &pkb, &ska)?; Ok::<_, dryoc::Error>([mac.to_vec(), c].concat()) }), &want, rp.clone());
    }
}

/// C13: the in-place seeded key-pair forms
pub fn seeded_inplace(out: &mut Out, rng: &mut Rng) {
    for r in 0..4 {
        let seed: [u8; 32] = rng.arr();
        let rp = json!({"op":"seed-keypair.inplace","seed":hx(&seed),"round":r});
        let (lpk, lsk) = sodium::sign_seed_keypair(&seed);
        differ(out, "sign.seed_keypair_inplace", guard_total(|| { let (mut pk, mut sk) = ([0u8; 32], [0u8; 64]); dryoc::classic::crypto_sign::crypto_sign_seed_keypair_inplace(&mut pk, &mut sk, &seed); [pk.to_vec(), sk.to_vec()].concat() }), &[lpk.to_vec(), lsk.to_vec()].concat(), rp.clone());
        let (bpk, bsk) = dryoc::classic::crypto_box::crypto_box_seed_keypair(&seed);
        differ(out, "box.seed_keypair_inplace", guard_total(|| { let (mut pk, mut sk) = ([0u8; 32], [0u8; 32]); dryoc::classic::crypto_box::crypto_box_seed_keypair_inplace(&mut pk, &mut sk, &seed); [pk.to_vec(), sk.to_vec()].concat() }), &[bpk.to_vec(), bsk.to_vec()].concat(), rp.clone());
        { let (lbpk, lbsk) = sodium::box_seed_keypair(&seed); differ(out, "box.seed_keypair", Outcome::Ok([bpk.to_vec(), bsk.to_vec()].concat()), &[lbpk.to_vec(), lbsk.to_vec()].concat(), rp.clone()); }
    }
}


/// C13: Ed25519 -> X25519 conversion on public keys whose encodings sit next to the canonical-encoding boundary
/// (top bits all set, low byte >= 0xed, ...): found by scanning seeded key pairs; and derive_keypair under an Argon2i configuration
pub fn conversion_edges(out: &mut Out, rng: &mut Rng, thorough: bool) {
    use dryoc::classic::crypto_sign_ed25519::crypto_sign_ed25519_pk_to_curve25519;
    let n = if thorough { 400_000 } else { 60_000 };
    let mut seed: [u8; 32] = rng.arr();
    let (mut hi, mut lo, mut both) = (0u32, 0u32, 0u32);
    for k in 0..n {
        seed[..4].copy_from_slice(&(k as u32).to_le_bytes());
        let (pk, _sk) = sodium::sign_seed_keypair(&seed);
        let top = (pk[31] & 0x7f) == 0x7f; let low = pk[0] >= 0xed;
        let want = (top && hi < 40) || (low && lo < 40) || (top && low) || (pk[31] & 0x7f) == 0 && k % 50 == 0;
        if !want { continue; }
        if top { hi += 1; } if low { lo += 1; } if top && low { both += 1; }
        out.search_evaluations += 1;
        let d = guard(|| { let mut x = [0u8; 32]; crypto_sign_ed25519_pk_to_curve25519(&mut x, &pk).map(|_| x) });
        if d.clone().ok() != sodium::sign_pk_to_curve(&pk) {
            out.hit("sign.pk_to_curve25519.differs-from-libsodium.boundary-encoding", format!("public key {} ({})", hx(&pk), d.class()), json!({"op":"sign.pk_to_curve25519","pk":hx(&pk),"seed":hx(&seed)}));
        }
    }
    out.notes.insert("pk_to_curve25519_boundary_keys".into(), json!({"top_bits_set":hi,"low_byte_ge_ed":lo,"both":both,"scanned":n}));
    // derive_keypair with the configuration of a parsed Argon2i string
    for alg in [1i32, 2] {
        let pw = rng.bytes(7); let salt: [u8; 16] = rng.arr();
        if let Some(st) = sodium::pwhash_str_alg(b"x", 3, 8192, alg) {
            out.search_evaluations += 1;
            let cfg = match guard(|| dryoc::pwhash::VecPwHash::from_string(&st)) { Outcome::Ok(p) => p.into_parts().2, o => { out.hit("obj.pwhash.from_string.rejects-libsodium-string", o.class().to_string(), json!({"string":st})); continue; } };
            let kp = guard(|| dryoc::pwhash::VecPwHash::derive_keypair::<_, StackByteArray<32>, StackByteArray<32>>(&pw, salt.to_vec(), cfg.clone()));
            let want = sodium::pwhash(32, &pw, &salt, 3, 8192, alg);
            match (kp, want) {
                (Outcome::Ok(kp), Some(w)) => { if kp.secret_key.as_array()[..] != w[..] { out.hit("pwhash.derive_keypair.ignores-the-configured-algorithm", format!("algorithm {} (configuration parsed from {})", alg, st), json!({"op":"obj.PwHash.derive_keypair","pw":hx(&pw),"salt":hx(&salt),"alg":alg})); } }
                (o, _) => out.hit("pwhash.derive_keypair.fails", format!("alg {} ({})", alg, o.class()), json!({"alg":alg})),
            }
        }
    }
}


/// C06: signatures whose commitment R or public key A carries a component of small order (mixed order: neither small nor
/// prime order).  The verification equation without the cofactor rejects R + T always and A + T unless [k]T = 0; dryoc's
/// verdict must be libsodium's in every case and through every verifying entry point.
pub fn mixed_order_signatures(out: &mut Out, rng: &mut Rng) {
    use curve25519_dalek::constants::{ED25519_BASEPOINT_POINT as B, EIGHT_TORSION};
    use curve25519_dalek::scalar::Scalar;
    use dryoc::classic::crypto_sign::*;
    let wide = |bytes: &[u8]| -> Scalar { let mut w = [0u8; 64]; w.copy_from_slice(bytes); Scalar::from_bytes_mod_order_wide(&w) };
    for round in 0..6 {
        let seed: [u8; 32] = rng.arr();
        let h = sodium::sha512(&seed);
        let mut ab: [u8; 32] = h[..32].try_into().unwrap(); ab[0] &= 248; ab[31] &= 127; ab[31] |= 64;
        let a = Scalar::from_bytes_mod_order(ab);
        let big_a = a * B;
        let m = rng.bytes(round * 7);
        let r = wide(&sodium::sha512(&[&h[32..], &m[..]].concat()));
        for ti in 1..8 {
            let t = EIGHT_TORSION[ti];
            for which in 0..2 {
                // which = 0: R' = rB + T under the honest key; which = 1: honest R, public key A' = A + T
                let (r_enc, a_enc) = if which == 0 { ((r * B + t).compress().to_bytes(), big_a.compress().to_bytes()) } else { ((r * B).compress().to_bytes(), (big_a + t).compress().to_bytes()) };
                let k = wide(&sodium::sha512(&[&r_enc[..], &a_enc[..], &m[..]].concat()));
                let s_ = r + k * a;
                let mut sig = [0u8; 64]; sig[..32].copy_from_slice(&r_enc); sig[32..].copy_from_slice(s_.as_bytes());
                let want = sodium::sign_verify_detached(&sig, &m, &a_enc);
                out.search_evaluations += 3;
                let rp = json!({"op":"sign.verify_detached","pk":hx(&a_enc),"msg":hx(&m),"sig":hx(&sig),"what":if which == 0 { "commitment R + T" } else { "public key A + T" },"torsion_index":ti});
                let d = guard(|| crypto_sign_verify_detached(&sig, &m, &a_enc));
                if d.is_panic() || d.is_ok() != want { out.hit("sign.verify.mixed-order-differs-from-libsodium", format!("{} with torsion point #{}: dryoc {} libsodium {}", if which == 0 { "R + T" } else { "A + T" }, ti, d.class(), want), rp.clone()); }
                let sm = [sig.to_vec(), m.clone()].concat();
                let o = guard(|| { let mut mm = vec![0u8; m.len()]; crypto_sign_open(&mut mm, &sm, &a_enc).map(|_| mm) });
                if o.is_panic() || o.is_ok() != want { out.hit("sign.open.mixed-order-differs-from-libsodium", format!("torsion point #{}: dryoc {} libsodium {}", ti, o.class(), want), rp.clone()); }
                let ov = guard(|| dryoc::sign::VecSignedMessage::from_bytes(&sm).and_then(|x| x.verify(&StackByteArray::<32>::from(&a_enc))));
                if ov.is_panic() || ov.is_ok() != want { out.hit("obj.sign.verify.mixed-order-differs-from-libsodium", format!("torsion point #{}: dryoc {} libsodium {}", ti, ov.class(), want), rp.clone()); }
            }
        }
    }
}


/// Conversions into the fixed-length containers: exact length accepted with the same bytes, any other length refused,
/// by-value and by-reference forms equal, and every way of viewing the bytes (`as_array` through a Vec, a slice, a slice
/// reference) sees the same bytes.  Shared by the properties whose entry points take these containers.
pub fn conversions(out: &mut Out, rng: &mut Rng) {
    use std::convert::TryFrom;
    let src: Vec<u8> = rng.bytes(200);
    macro_rules! fixed { ($n:expr) => {{
        let exact = &src[..$n];
        out.search_evaluations += 8;
        match StackByteArray::<$n>::try_from(exact) { Ok(a) => { if a.as_slice() != exact { out.hit("containers.try_from.changes-bytes", format!("StackByteArray<{}>", $n), json!({"op":"containers.try_from","container":"StackByteArray","n":$n})); } } Err(_) => out.hit("containers.try_from.rejects-exact-length", format!("StackByteArray<{}>", $n), json!({"n":$n})) }
        for l in [0usize, 1, $n - 1, $n + 1, 2 * $n, 100] { if l != $n && StackByteArray::<$n>::try_from(&src[..l]).is_ok() { out.hit("containers.try_from.accepts-wrong-length", format!("StackByteArray<{}> from a slice of {} bytes", $n, l), json!({"op":"containers.try_from","container":"StackByteArray","n":$n,"len":l})); } }
        let arr: [u8; $n] = exact.try_into().unwrap();
        if StackByteArray::<$n>::from(arr).as_slice() != exact || StackByteArray::<$n>::from(&arr).as_slice() != exact { out.hit("containers.from-array.changes-bytes", format!("StackByteArray<{}>", $n), json!({"n":$n})); }
        // views: a Vec, a slice, a reference to a slice
        let v: Vec<u8> = exact.to_vec(); let sl: &[u8] = &v[..];
        let a1: &[u8; $n] = ByteArray::<$n>::as_array(&v);
        let a2: &[u8; $n] = ByteArray::<$n>::as_array(sl);
        let a3: &[u8; $n] = ByteArray::<$n>::as_array(&sl);
        if a1[..] != *exact || a2[..] != *exact || a3[..] != *exact { out.hit("containers.as_array.view-differs", format!("as_array::<{}> through Vec / [u8] / &[u8] gives {} / {} / {}", $n, hx(a1), hx(a2), hx(a3)), json!({"op":"containers.as_array","n":$n,"bytes":hx(exact)})); }
    }}; }
    fixed!(16); fixed!(24); fixed!(32); fixed!(64);
    #[cfg(feature = "nightly")]
    {
        use dryoc::protected::*;
        macro_rules! heap { ($n:expr) => {{
            let exact = &src[..$n];
            out.search_evaluations += 8;
            match HeapByteArray::<$n>::try_from(exact) { Ok(a) => { if a.as_slice() != exact || a.as_array()[..] != *exact || a.len() != $n { out.hit("containers.try_from.changes-bytes", format!("HeapByteArray<{}>: {} bytes {}", $n, a.len(), hx(a.as_slice())), json!({"op":"containers.try_from","container":"HeapByteArray","n":$n})); } } Err(_) => out.hit("containers.try_from.rejects-exact-length", format!("HeapByteArray<{}>", $n), json!({"n":$n})) }
            for l in [0usize, 1, $n - 1, $n + 1, 2 * $n, 100] { if l != $n && HeapByteArray::<$n>::try_from(&src[..l]).is_ok() { out.hit("containers.try_from.accepts-wrong-length", format!("HeapByteArray<{}> from a slice of {} bytes", $n, l), json!({"op":"containers.try_from","container":"HeapByteArray","n":$n,"len":l})); } }
            let arr: [u8; $n] = exact.try_into().unwrap();
            if HeapByteArray::<$n>::from(arr).as_slice() != exact || HeapByteArray::<$n>::from(&arr).as_slice() != exact || HeapByteArray::<$n>::from(StackByteArray::<$n>::from(&arr)).as_slice() != exact {
                out.hit("containers.from-array.changes-bytes", format!("HeapByteArray<{}>", $n), json!({"op":"containers.from","container":"HeapByteArray","n":$n})); }
            if HeapBytes::from(exact).as_slice() != exact { out.hit("containers.from-slice.changes-bytes", "HeapBytes".into(), json!({"n":$n})); }
            match HeapByteArray::<$n>::from_slice_into_locked(exact) { Ok(l) => { if l.as_slice() != exact { out.hit("containers.from-slice.changes-bytes", format!("Locked<HeapByteArray<{}>>", $n), json!({"n":$n})); } } Err(_) => {} }
        }}; }
        heap!(16); heap!(32); heap!(64);
    }
}

/// Seeded and recomputed key pairs through the object API, and key exchange with unusual but legal peers
pub fn seeded_object_keys(out: &mut Out, rng: &mut Rng) {
    for r in 0..4 {
        let seed: [u8; 32] = rng.arr();
        let rp = json!({"op":"obj.seeded-keys","seed":hx(&seed),"round":r});
        // box key pair from a seed: libsodium's crypto_box_seed_keypair
        let (bpk, bsk) = sodium::box_seed_keypair(&seed);
        differ(out, "keypair.from_seed", guard_total(|| { let kp = dryoc::keypair::StackKeyPair::from_seed(&seed); [kp.public_key.to_vec(), kp.secret_key.to_vec()].concat() }), &[bpk.to_vec(), bsk.to_vec()].concat(), rp.clone());
        differ(out, "keypair.from_seed(vec)", guard_total(|| { let kp = dryoc::keypair::KeyPair::<Vec<u8>, Vec<u8>>::from_seed(&seed.to_vec()); [kp.public_key.to_vec(), kp.secret_key.to_vec()].concat() }), &[bpk.to_vec(), bsk.to_vec()].concat(), rp.clone());
        // a sealed box libsodium addressed to that key pair opens with it
        { let m = rng.bytes(9); let sealed = sodium::box_seal(&m, &bpk);
          differ(out, "keypair.from_seed+unseal", guard(|| { let kp = dryoc::keypair::StackKeyPair::from_seed(&seed); dryoc::dryocbox::VecBox::from_sealed_bytes(&sealed)?.unseal_to_vec(&kp) }), &m, rp.clone()); }
        // key-exchange key pair from a seed: libsodium's crypto_kx_seed_keypair (BLAKE2b-256 of the seed)
        let (kpk, ksk) = sodium::kx_seed_keypair(&seed);
        differ(out, "kx.seed_keypair", guard(|| dryoc::classic::crypto_kx::crypto_kx_seed_keypair(&seed)).map(|(pk, sk)| [pk.to_vec(), sk.to_vec()].concat()), &[kpk.to_vec(), ksk.to_vec()].concat(), rp.clone());
        // signing key pair from a 64-byte secret key whose second half is not the public key: rebuilt from the seed half
        let (spk, ssk) = sodium::sign_seed_keypair(&seed);
        for (what, tail) in [("honest", spk.to_vec()), ("zero tail", vec![0u8; 32]), ("seed twice", seed.to_vec()), ("another key", sodium::sign_seed_keypair(&[9u8; 32]).0.to_vec())] {
            let sk64: [u8; 64] = [seed.to_vec(), tail].concat().try_into().unwrap();
            differ(out, &format!("sign.keypair.from_secret_key({})", what), guard_total(|| { let kp = dryoc::sign::SigningKeyPair::<dryoc::sign::PublicKey, dryoc::sign::SecretKey>::from_secret_key(StackByteArray::<64>::from(&sk64)); [kp.public_key.to_vec(), kp.secret_key.to_vec()].concat() }), &[spk.to_vec(), ssk.to_vec()].concat(), rp.clone());
        }
        // signing key pair from a seed, in every container: libsodium's crypto_sign_seed_keypair
        { use dryoc::sign::SigningKeyPair;
          let want = [spk.to_vec(), ssk.to_vec()].concat();
          differ(out, "sign.keypair.from_seed(stack)", guard_total(|| { let kp = SigningKeyPair::<StackByteArray<32>, StackByteArray<64>>::from_seed(&StackByteArray::<32>::from(&seed)); [kp.public_key.to_vec(), kp.secret_key.to_vec()].concat() }), &want, rp.clone());
          differ(out, "sign.keypair.from_seed(array seed)", guard_total(|| { let kp = SigningKeyPair::<StackByteArray<32>, StackByteArray<64>>::from_seed(&seed); [kp.public_key.to_vec(), kp.secret_key.to_vec()].concat() }), &want, rp.clone());
          differ(out, "sign.keypair.from_seed(vec)", guard_total(|| { let kp = SigningKeyPair::<Vec<u8>, Vec<u8>>::from_seed(&seed.to_vec()); [kp.public_key.clone(), kp.secret_key.clone()].concat() }), &want, rp.clone());
          differ(out, "sign.keypair.from_seed(vec, stack)", guard_total(|| { let kp = SigningKeyPair::<Vec<u8>, StackByteArray<64>>::from_seed(&seed); [kp.public_key.clone(), kp.secret_key.to_vec()].concat() }), &want, rp.clone());
          differ(out, "sign.keypair.from_secret_key(vec)", guard_total(|| { let kp = SigningKeyPair::<Vec<u8>, Vec<u8>>::from_secret_key(ssk.to_vec()); [kp.public_key.clone(), kp.secret_key.clone()].concat() }), &want, rp.clone());
        }
        // a key pair recomputed from a secret key keeps that secret key (clamped or not)
        for skx in [seed, { let mut x = seed; x[0] |= 7; x[31] |= 0x80; x }] {
            differ(out, "keypair.from_secret_key", guard_total(|| { let kp = dryoc::keypair::StackKeyPair::from_secret_key(StackByteArray::<32>::from(&skx)); [kp.public_key.to_vec(), kp.secret_key.to_vec()].concat() }), &[sodium::scalarmult_base(&skx).to_vec(), skx.to_vec()].concat(), rp.clone());
        }
        // key exchange with one's own public key as the peer: legal, libsodium computes session keys
        { use dryoc::kx::Session;
          let kp = dryoc::kx::KeyPair::from_secret_key(StackByteArray::<32>::from(&bsk));
          if let Some((lrx, ltx)) = sodium::kx_client(&bpk, &bsk, &bpk) {
              differ(out, "kx.session.own-key-as-peer(client)", guard(|| Session::<StackByteArray<32>>::new_client(&kp, &kp.public_key)).map(|s| [s.rx_as_slice().to_vec(), s.tx_as_slice().to_vec()].concat()), &[lrx.to_vec(), ltx.to_vec()].concat(), rp.clone()); }
          if let Some((lrx, ltx)) = sodium::kx_server(&bpk, &bsk, &bpk) {
              differ(out, "kx.session.own-key-as-peer(server)", guard(|| Session::<StackByteArray<32>>::new_server(&kp, &kp.public_key)).map(|s| [s.rx_as_slice().to_vec(), s.tx_as_slice().to_vec()].concat()), &[lrx.to_vec(), ltx.to_vec()].concat(), rp.clone()); }
        }
    }
}


/// C06: signing uses the secret key (seed and the public key it embeds), not the key pair's separately settable public_key
/// field: a pair whose field holds something else still produces libsodium's signature for that secret key
pub fn sign_keypair_fields(out: &mut Out, rng: &mut Rng) {
    use dryoc::sign::{SigningKeyPair, VecSignedMessage, PublicKey, SecretKey};
    for r in 0..3 {
        let seed: [u8; 32] = rng.arr();
        let (spk, ssk) = sodium::sign_seed_keypair(&seed);
        let other = sodium::sign_seed_keypair(&rng.arr()).0;
        for mlen in [0usize, 1, 33] {
            let m = rng.bytes(mlen);
            let want = sodium::sign_detached(&m, &ssk);
            for (what, pkf) in [("honest", spk), ("zeroed placeholder", [0u8; 32]), ("another key", other), ("one bit changed", { let mut x = spk; x[5] ^= 4; x })] {
                out.search_evaluations += 1;
                let rp = json!({"op":"obj.SigningKeyPair.sign","seed":hx(&seed),"public_key_field":hx(&pkf),"msg":hx(&m),"round":r});
                let kp = match SigningKeyPair::<PublicKey, SecretKey>::from_slices(&pkf, &ssk) { Ok(k) => k, Err(_) => { out.hit("obj.sign.keypair.from_slices.fails", what.to_string(), rp.clone()); continue; } };
                match guard(|| { let sm: VecSignedMessage = kp.sign_with_defaults(m.clone())?; Ok::<_, dryoc::Error>(sm.into_parts().0.to_vec()) }) {
                    Outcome::Ok(sig) => { if sig[..] != want[..] { out.hit("obj.sign.signature-depends-on-the-public-key-field", format!("{} field, message of {} bytes: not libsodium's signature for the secret key", what, mlen), rp.clone()); } }
                    o => out.hit("obj.sign.fails", format!("{} field ({})", what, o.class()), rp.clone()),
                }
            }
        }
    }
}

/// C09 / C10: PwHash object paths where the configuration and the caller's arguments disagree in length
pub fn pwhash_lengths(out: &mut Out, rng: &mut Rng) {
    use dryoc::pwhash::{Config, PwHash, VecPwHash};
    let pw = rng.bytes(9);
    // derive_keypair is a 32-byte Argon2 output whatever hash_length the configuration carries
    for hl in [16usize, 32, 64, 100] {
        let salt: [u8; 16] = rng.arr();
        let cfg = Config::interactive().with_opslimit(1).with_memlimit(8192).with_hash_length(hl);
        out.search_evaluations += 1;
        let kp = guard(|| VecPwHash::derive_keypair::<_, StackByteArray<32>, StackByteArray<32>>(&pw, salt.to_vec(), cfg.clone()));
        match (kp, sodium::pwhash(32, &pw, &salt, 1, 8192, 2)) {
            (Outcome::Ok(kp), Some(w)) => { if kp.secret_key.as_array()[..] != w[..] || kp.public_key.as_array() != &sodium::scalarmult_base(&w[..].try_into().unwrap()) { out.hit("pwhash.derive_keypair.differs-from-libsodium-construction", format!("hash_length {}", hl), json!({"op":"obj.PwHash.derive_keypair","pw":hx(&pw),"salt":hx(&salt),"hash_length":hl})); } }
            (o, _) => out.hit("pwhash.derive_keypair.fails", format!("hash_length {} ({})", hl, o.class()), json!({"hash_length":hl})),
        }
    }
    // a record of either algorithm (Argon2i only arises from a parsed string or a stored record) verifies the password that
    // produced it and no other
    for alg in [1i32, 2] {
        let pw2 = rng.bytes(8);
        if let Some(st) = sodium::pwhash_str_alg(&pw2, 3, 8192, alg) {
            out.search_evaluations += 2;
            let rp = json!({"op":"obj.PwHash.from_string+verify","string":st,"pw":hx(&pw2),"alg":alg});
            match guard(|| VecPwHash::from_string(&st)) {
                Outcome::Ok(h) => {
                    if !guard(|| h.verify(&pw2)).is_ok() { out.hit("obj.pwhash.verify.rejects-right-password.by-algorithm", format!("algorithm {}", alg), rp.clone()); }
                    let mut w = pw2.clone(); w[0] ^= 1;
                    if !guard(|| h.verify(&w)).is_err() { out.hit("obj.pwhash.verify.accepts-wrong-password.by-algorithm", format!("algorithm {}", alg), rp.clone()); }
                    // ... and hashing again under the record's configuration (fresh salt) gives a record that says what it is
                    let (_, _, cfg2) = h.clone().into_parts();
                    match guard(|| VecPwHash::hash(&pw2, cfg2.clone())) {
                        Outcome::Ok(h2) => {
                            let s2 = h2.to_string();
                            if !guard(|| h2.verify(&pw2)).is_ok() { out.hit("obj.pwhash.hash.record-does-not-verify-its-password", format!("algorithm {}: {}", alg, s2), rp.clone()); }
                            if s2.len() < 128 && !sodium::pwhash_str_verify(&s2, &pw2) { out.hit("obj.pwhash.hash.string-names-another-algorithm", format!("algorithm {}: libsodium rejects {}", alg, s2), rp.clone()); }
                            if !guard(|| dryoc::classic::crypto_pwhash::crypto_pwhash_str_verify(&s2, &pw2)).is_ok() { out.hit("obj.pwhash.hash.string-rejected-by-str_verify", format!("algorithm {}: {}", alg, s2), rp.clone()); }
                        }
                        o => out.hit("obj.pwhash.hash.fails", format!("algorithm {} ({})", alg, o.class()), rp.clone()),
                    }
                }
                o => out.hit("obj.pwhash.from_string.rejects-libsodium-string", o.class().to_string(), rp.clone()),
            }
        }
    }
    // hash_with_salt uses the whole salt it is given, and the string names that salt: libsodium verifies it
    for (sl_cfg, salt_len) in [(16usize, 16usize), (16, 17), (16, 32), (8, 16), (32, 16), (16, 64)] {
        let salt = rng.bytes(salt_len);
        let cfg = Config::interactive().with_opslimit(1).with_memlimit(8192).with_salt_length(sl_cfg);
        out.search_evaluations += 2;
        let rp = json!({"op":"obj.PwHash.hash_with_salt","pw":hx(&pw),"salt":hx(&salt),"config_salt_length":sl_cfg});
        match guard(|| { let r: Result<VecPwHash, _> = PwHash::hash_with_salt(&pw, salt.clone(), cfg.clone()); r }) {
            Outcome::Ok(h) => {
                let (hash, s2, _) = h.clone().into_parts();
                if s2 != salt { out.hit("obj.pwhash.hash_with_salt.stores-another-salt", format!("salt of {} bytes", salt_len), rp.clone()); }
                let mut want = vec![0u8; hash.len()];
                let w = guard(|| dryoc::classic::crypto_pwhash::crypto_pwhash(&mut want, &pw, &salt, 1, 8192, dryoc::classic::crypto_pwhash::PasswordHashAlgorithm::Argon2id13));
                if w.is_ok() && want != hash { out.hit("obj.pwhash.hash_with_salt.does-not-use-the-whole-salt", format!("salt of {} bytes, config salt_length {}", salt_len, sl_cfg), rp.clone()); }
                let st = h.to_string();
                if st.len() < 128 && !sodium::pwhash_str_verify(&st, &pw) { out.hit("obj.pwhash.to_string.libsodium-rejects", format!("salt of {} bytes, config salt_length {}: {}", salt_len, sl_cfg, st), rp.clone()); }
                if !guard(|| VecPwHash::from_string(&st).and_then(|p| p.verify(&pw))).is_ok() { out.hit("obj.pwhash.from_string.verify-rejects-own-string", format!("salt of {} bytes", salt_len), rp.clone()); }
            }
            o => out.hit("obj.pwhash.hash_with_salt.fails", format!("salt of {} bytes ({})", salt_len, o.class()), rp.clone()),
        }
    }
}

/// C04 (and C09): password-hash records whose hash field is shorter than any hash the crate produces: an error, never a panic
pub fn short_hash_records(out: &mut Out, rng: &mut Rng) {
    use dryoc::pwhash::{Config, PwHash, VecPwHash};
    let pw = rng.bytes(5);
    for hl in 0usize..=17 {
        let hash = rng.bytes(hl); let salt = rng.bytes(16);
        out.search_evaluations += 3;
        let rp = json!({"op":"obj.PwHash.verify","hash":hx(&hash),"salt":hx(&salt),"hash_length":hl});
        let h: VecPwHash = PwHash::from_parts(hash.clone(), salt.clone(), Config::interactive().with_opslimit(1).with_memlimit(8192).with_hash_length(hl));
        let r = guard(|| h.verify(&pw));
        if r.is_panic() { out.hit("obj.pwhash.verify.panics", format!("stored hash of {} bytes", hl), rp.clone()); }
        if r.is_ok() { out.hit("obj.pwhash.verify.accepts-wrong-password", format!("stored hash of {} bytes", hl), rp.clone()); }
        let mut o = vec![0u8; hl];
        let c = guard(|| dryoc::classic::crypto_pwhash::crypto_pwhash(&mut o, &pw, &salt, 1, 8192, dryoc::classic::crypto_pwhash::PasswordHashAlgorithm::Argon2id13));
        if c.is_panic() { out.hit("pwhash.panics", format!("output of {} bytes", hl), rp.clone()); }
        let l = salt[..].try_into().ok().and_then(|s16: [u8; 16]| sodium::pwhash(hl, &pw, &s16, 1, 8192, 2));
        if c.is_ok() != l.is_some() { out.hit("pwhash.accept-reject-differs-from-libsodium", format!("output of {} bytes: dryoc {} libsodium {}", hl, c.class(), l.is_some()), rp.clone()); }
        // the same through a string
        let st = format!("$argon2id$v=19$m=8,t=1,p=1${}${}", b64(&salt), b64(&hash));
        let r = guard(|| VecPwHash::from_string(&st).and_then(|p| p.verify(&pw)));
        if r.is_panic() { out.hit("obj.pwhash.from_string+verify.panics", format!("hash field of {} bytes: {}", hl, st), json!({"op":"obj.pwhash.from_string+verify","string":st})); }
    }
}
fn b64(v: &[u8]) -> String {
    const A: &[u8] = b"ABCDEFGHIJKLMNOPQRSTUVWXYZabcdefghijklmnopqrstuvwxyz0123456789+/";
    let mut s = String::new();
    for ch in v.chunks(3) { let n = (ch[0] as u32) << 16 | (*ch.get(1).unwrap_or(&0) as u32) << 8 | *ch.get(2).unwrap_or(&0) as u32;
        s.push(A[(n >> 18) as usize & 63] as char); s.push(A[(n >> 12) as usize & 63] as char); if ch.len() > 1 { s.push(A[(n >> 6) as usize & 63] as char); } if ch.len() > 2 { s.push(A[n as usize & 63] as char); } }
    s
}

/// C06 / C08: the two signing modes do not cross over, and the incremental signer ignores how the message was cut
pub fn sign_modes_and_chunks(out: &mut Out, rng: &mut Rng) {
    use dryoc::classic::crypto_sign::*;
    use dryoc::sign::IncrementalSigner;
    for len in [0usize, 1, 64, 200] {
        let seed: [u8; 32] = rng.arr();
        let (pk, sk) = sodium::sign_seed_keypair(&seed);
        let m = rng.bytes(len);
        let rp = json!({"op":"sign.modes","seed":hx(&seed),"msg":hx(&m)});
        // a pure signature over SHA-512(m) is not a pre-hashed signature of m
        let digest = sodium::sha512(&m);
        let pure_over_digest = sodium::sign_detached(&digest, &sk);
        out.search_evaluations += 3;
        let lib = sodium::sign_ph_verify(&[&m[..]], &pure_over_digest, &pk);
        let d = guard(|| { let mut st = crypto_sign_init(); crypto_sign_update(&mut st, &m); crypto_sign_final_verify(st, &pure_over_digest, &pk) });
        if d.is_ok() != lib || d.is_panic() { out.hit("sign.ph.verify-accepts-pure-signature-over-the-digest", format!("len {}: dryoc {} libsodium {}", len, d.class(), lib), rp.clone()); }
        let o = guard(|| { let mut s = IncrementalSigner::new(); s.update(&m); s.verify(&StackByteArray::<64>::from(&pure_over_digest), &StackByteArray::<32>::from(&pk)) });
        if o.is_ok() != lib || o.is_panic() { out.hit("obj.sign.incremental.verify-accepts-pure-signature-over-the-digest", format!("len {}", len), rp.clone()); }
        // every way of cutting the message, empty pieces anywhere (last included)
        let want = sodium::sign_ph(&[&m[..]], &sk);
        let cut = if len == 0 { 0 } else { rng.below(len as u64 + 1) as usize };
        let e: Vec<u8> = vec![];
        let parts: Vec<Vec<Vec<u8>>> = vec![vec![m.clone()], vec![m[..cut].to_vec(), m[cut..].to_vec()], vec![m.clone(), e.clone()], vec![e.clone(), m.clone()], vec![m[..cut].to_vec(), e.clone(), m[cut..].to_vec(), e.clone()]];
        for ps in parts {
            out.search_evaluations += 2;
            let sizes: Vec<usize> = ps.iter().map(|p| p.len()).collect();
            let f = guard(|| { let mut s = IncrementalSigner::new(); for p in ps.iter() { s.update(p); } let sg: StackByteArray<64> = s.finalize(&StackByteArray::<64>::from(&sk))?; Ok::<_, dryoc::Error>(sg.to_vec()) });
            if f.ok().as_deref() != Some(&want[..]) { out.hit("obj.sign.incremental.differs-by-chunking", format!("pieces {:?}", sizes), json!({"op":"obj.IncrementalSigner","seed":hx(&seed),"msg":hx(&m),"pieces":sizes})); }
            let v = guard(|| { let mut s = IncrementalSigner::new(); for p in ps.iter() { s.update(p); } s.verify(&StackByteArray::<64>::from(&want), &StackByteArray::<32>::from(&pk)) });
            if !v.is_ok() { out.hit("obj.sign.incremental.verify-differs-by-chunking", format!("pieces {:?} ({})", sizes, v.class()), json!({"op":"obj.IncrementalSigner.verify","seed":hx(&seed),"msg":hx(&m),"pieces":sizes})); }
        }
    }
}


/// C04 / C16: serde records whose byte-array fields have other lengths than the type fixes -- an error (or, for resizable
/// fields, the elements given), never a panic; through the text deserializer and through the one that announces lengths
pub fn serde_field_lengths(out: &mut Out, rng: &mut Rng) {
    use serde_json::Value;
    let (k, n): ([u8; 32], [u8; 24]) = (rng.arr(), rng.arr());
    let sk: [u8; 32] = rng.arr();
    let m = rng.bytes(20);
    let sbx = dryoc::dryocsecretbox::VecBox::encrypt_to_vecbox(&m, &StackByteArray::<24>::from(&n), &StackByteArray::<32>::from(&k));
    let kp = dryoc::keypair::StackKeyPair::from_secret_key(StackByteArray::<32>::from(&sk));
    let sealed = dryoc::dryocbox::VecBox::seal_to_vecbox(&m, &kp.public_key).unwrap();
    let skp = dryoc::sign::SigningKeyPair::<dryoc::sign::PublicKey, dryoc::sign::SecretKey>::from_seed(&StackByteArray::<32>::from(&sk));
    let signed: dryoc::sign::VecSignedMessage = skp.sign_with_defaults(m.clone()).unwrap();
    fn arrays(v: &Value, path: Vec<String>, acc: &mut Vec<(Vec<String>, usize)>) {
        match v { Value::Array(a) if a.iter().all(|x| x.is_u64()) => acc.push((path, a.len())),
                  Value::Object(o) => for (k, x) in o { let mut p = path.clone(); p.push(k.clone()); arrays(x, p, acc); }, _ => {} }
    }
    fn set(v: &mut Value, path: &[String], new: Value) { if path.is_empty() { *v = new; } else if let Some(x) = v.get_mut(&path[0]) { set(x, &path[1..], new); } }
    macro_rules! sweep { ($name:expr, $ty:ty, $val:expr) => {{
        let base = serde_json::to_value(&$val).unwrap();
        let mut fields = vec![]; arrays(&base, vec![], &mut fields);
        for (path, n0) in fields {
            for newlen in [0usize, 1, n0.saturating_sub(1), n0 + 1, 2 * n0, 2 * n0 + 1, 100] {
                if newlen == n0 { continue; }
                let mut v2 = base.clone(); set(&mut v2, &path, Value::Array((0..newlen).map(|x| Value::from((x % 251) as u64)).collect()));
                let text = v2.to_string();
                out.search_evaluations += 2;
                let r1 = guard_total(|| serde_json::from_str::<$ty>(&text).is_ok());
                let r2 = guard_total(|| serde_json::from_value::<$ty>(v2.clone()).is_ok());
                if r1.is_panic() || r2.is_panic() { out.hit("serde.json.decode-panics.field-length", format!("{}: field {} with {} elements (declared {})", $name, path.join("."), newlen, n0), json!({"op":"serde.json_decode","type":$name,"json":text})); }
            }
        }
    }}; }
    sweep!("DryocSecretBox", dryoc::dryocsecretbox::VecBox, sbx);
    sweep!("DryocBox(sealed)", dryoc::dryocbox::VecBox, sealed);
    sweep!("SignedMessage", dryoc::sign::VecSignedMessage, signed);
    sweep!("KeyPair", dryoc::keypair::StackKeyPair, kp);
    sweep!("SigningKeyPair", dryoc::sign::SigningKeyPair<dryoc::sign::PublicKey, dryoc::sign::SecretKey>, skp);
}

/// C16: a password-hash record that carries Argon2i (only reachable by parsing an Argon2i string) survives both formats
pub fn argon2i_record(out: &mut Out, rng: &mut Rng) {
    use dryoc::pwhash::VecPwHash;
    let pw = rng.bytes(6);
    for alg in [1i32, 2] {
        let st = match sodium::pwhash_str_alg(&pw, 3, 8192, alg) { Some(s) => s, None => continue };
        let h = match guard(|| VecPwHash::from_string(&st)) { Outcome::Ok(h) => h, o => { out.hit("obj.pwhash.from_string.rejects-libsodium-string", o.class().to_string(), json!({"string":st})); continue; } };
        out.search_evaluations += 2;
        let rp = json!({"op":"serde.PwHash.algorithm","string":st,"alg":alg});
        let j = guard(|| serde_json::from_str::<VecPwHash>(&serde_json::to_string(&h).unwrap()));
        let bn = guard(|| bincode::deserialize::<VecPwHash>(&bincode::serialize(&h).unwrap()));
        for (fmt, r) in [("json", j), ("bincode", bn)] {
            match r { Outcome::Ok(h2) => { if h2.to_string() != st { out.hit(&format!("serde.{}.roundtrip-differs.PwHash.algorithm", fmt), format!("{} became {}", st, h2.to_string()), rp.clone()); }
                                           if !guard(|| h2.verify(&pw)).is_ok() { out.hit(&format!("serde.{}.roundtrip-no-longer-verifies.PwHash", fmt), format!("algorithm {}", alg), rp.clone()); } }
                      o => out.hit(&format!("serde.{}.roundtrip-fails.PwHash", fmt), o.class().to_string(), rp.clone()) }
        }
    }
}
