//! C01 (round trips, byte compatibility), C02 (tamper rejection), C17 (nothing released on failure)
//! for secret box / box / sealed box in every classic form and the object API.
use crate::common::*;
use crate::sodium;
use dryoc::classic::crypto_box::*;
use dryoc::classic::crypto_secretbox::*;
use dryoc::dryocbox::{DryocBox, KeyPair as BoxKeyPair};
use dryoc::dryocsecretbox::DryocSecretBox;
use dryoc::types::*;
use serde_json::json;

pub const SENT: u8 = 0xa5;

// ---------------------------------------------------------------- dryoc wrappers (guarded)
pub fn sb_easy(cbuf_len: usize, m: &[u8], n: &[u8; 24], k: &[u8; 32]) -> Outcome<Vec<u8>> {
    guard(|| { let mut c = vec![SENT; cbuf_len]; crypto_secretbox_easy(&mut c, m, n, k).map(|_| c) })
}
pub fn sb_detached(cbuf_len: usize, m: &[u8], n: &[u8; 24], k: &[u8; 32]) -> Outcome<(Vec<u8>, [u8; 16])> {
    guard_total(|| { let mut c = vec![SENT; cbuf_len]; let mut mac = [0u8; 16]; crypto_secretbox_detached(&mut c, &mut mac, m, n, k); (c, mac) })
}
pub fn sb_easy_inplace(data: &[u8], n: &[u8; 24], k: &[u8; 32]) -> Outcome<Vec<u8>> {
    guard(|| { let mut d = data.to_vec(); crypto_secretbox_easy_inplace(&mut d, n, k).map(|_| d) })
}
/// returns (verdict, buffer afterwards)
pub fn sb_open_easy(mbuf: &[u8], c: &[u8], n: &[u8; 24], k: &[u8; 32]) -> (Outcome<()>, Vec<u8>) {
    let mut m = mbuf.to_vec();
    let r = guard(|| crypto_secretbox_open_easy(&mut m, c, n, k));
    (r, m)
}
pub fn sb_open_detached(mbuf: &[u8], mac: &[u8; 16], c: &[u8], n: &[u8; 24], k: &[u8; 32]) -> (Outcome<()>, Vec<u8>) {
    let mut m = mbuf.to_vec();
    let r = guard(|| crypto_secretbox_open_detached(&mut m, mac, c, n, k));
    (r, m)
}
pub fn sb_open_easy_inplace(c: &[u8], n: &[u8; 24], k: &[u8; 32]) -> (Outcome<()>, Vec<u8>) {
    let mut d = c.to_vec();
    let r = guard(|| crypto_secretbox_open_easy_inplace(&mut d, n, k));
    (r, d)
}

fn cls(o: &Outcome<()>) -> Tok { Tok::I(match o { Outcome::Ok(_) => 0, Outcome::Err => 1, Outcome::Panic => 2 }) }
fn open_res(r: &(Outcome<()>, Vec<u8>)) -> Outcome<Vec<Tok>> { Outcome::Ok(vec![cls(&r.0), b(&r.1)]) }

pub fn keys(rng: &mut Rng, n: usize) -> Vec<([u8; 32], [u8; 24])> {
    let mut v = vec![([0u8; 32], [0u8; 24]), ([0xff; 32], [0xff; 24])];
    while v.len() < n { v.push((rng.arr(), rng.arr())); }
    v.truncate(n);
    v
}

pub fn box_pairs(rng: &mut Rng, n: usize) -> Vec<(([u8; 32], [u8; 32]), ([u8; 32], [u8; 32]))> {
    (0..n).map(|_| {
        let (sa, sb): ([u8; 32], [u8; 32]) = (rng.arr(), rng.arr());
        (crypto_box_seed_keypair(&sa), crypto_box_seed_keypair(&sb))
    }).collect()
}

/// Messages whose Poly1305 accumulator is steered onto the residues 0..4 and p-1.. (so that the
/// unreduced limbs may hold p+x, the corner of the final conditional subtraction), for a given
/// secretbox key and nonce: the last ciphertext block is solved modulo 2^130-5.
pub fn steered_messages(rng: &mut Rng, k: &[u8; 32], n: &[u8; 24], nblocks: usize, target: u32) -> Option<Vec<u8>> {
    use num_bigint::BigUint;
    let ks = sodium::stream_xsalsa20(32 + 16 * nblocks, n, k);
    let p = (BigUint::from(1u8) << 130) - BigUint::from(5u8);
    let mut rb = ks[..16].to_vec();
    for (i, m) in [(3usize, 15u8), (7, 15), (11, 15), (15, 15)] { rb[i] &= m; }
    for i in [4usize, 8, 12] { rb[i] &= 252; }
    let r = BigUint::from_bytes_le(&rb);
    if r == BigUint::from(0u8) { return None; }
    let rinv = r.modpow(&(&p - BigUint::from(2u8)), &p);
    let two128 = BigUint::from(1u8) << 128;
    for _ in 0..64 {
        let mut c: Vec<u8> = rng.bytes(16 * (nblocks - 1));
        let mut acc = BigUint::from(0u8);
        for b in c.chunks(16) { acc = ((acc + BigUint::from_bytes_le(b) + &two128) * &r) % &p; }
        // want ((acc + x + 2^128) * r) mod p = target  =>  x = target * r^-1 - acc - 2^128 (mod p)
        let t = (BigUint::from(target) * &rinv) % &p;
        let x: BigUint = (t + &p + &p - acc - &two128) % &p;
        if x < two128 {
            let mut xb = x.to_bytes_le(); xb.resize(16, 0);
            c.extend_from_slice(&xb);
            let m: Vec<u8> = c.iter().zip(ks[32..].iter()).map(|(a, b)| a ^ b).collect();
            return Some(m);
        }
    }
    None
}

pub fn run_c01(out: &mut Out, tier: &str, seed: u64) {
    let mut rng = Rng::new(seed, "c01");
    let thorough = tier == "thorough";
    // Poly1305 final-reduction corners reached through the box: accumulator residues 0..=4 (limbs may
    // hold p+x) for several keys and block counts
    for round in 0..(if thorough { 40 } else { 10 }) {
        let (k, n): ([u8; 32], [u8; 24]) = (rng.arr(), rng.arr());
        for target in 0..=5u32 {
            for nblocks in [1usize, 2, 5] {
                if let Some(m) = steered_messages(&mut rng, &k, &n, nblocks, target) {
                    out.search_evaluations += 2;
                    let s = sodium::secretbox_easy(&m, &n, &k);
                    let e = sb_easy(m.len() + 16, &m, &n, &k);
                    if e.clone().ok().as_ref() != Some(&s) {
                        out.hit("secretbox.easy.differs-from-libsodium.steered-accumulator", format!("accumulator residue {} ({} blocks)", target, nblocks),
                            json!({"op":"secretbox.easy","key":hx(&k),"nonce":hx(&n),"msg":hx(&m),"libsodium":hx(&s),"dryoc":format!("{:?}", e.clone().map(|v| hx(&v)))}));
                    }
                    let r = sb_open_easy(&vec![SENT; m.len()], &s, &n, &k);
                    if !(r.0.is_ok() && r.1 == m) { out.hit("secretbox.open_easy.rejects-libsodium-box.steered-accumulator", format!("accumulator residue {}", target), json!({"op":"secretbox.open_easy","key":hx(&k),"nonce":hx(&n),"box":hx(&s)})); }
                    if round < 3 { out.case("secretbox.easy", &[b(&vec![SENT; m.len() + 16]), b(&m), b(&n), b(&k)], &e.map(|v| vec![Tok::B(v)]), true); }
                }
            }
        }
    }
    let maxlen = 320usize;
    let mut lens: Vec<usize> = (0..=maxlen).collect();
    lens.extend_from_slice(&[1024, 4095, 4096, 4097, 8191, 8193, 12288, 16385, 20000]);
    if thorough { lens.push(65536); }
    let kn = keys(&mut rng, if thorough { 5 } else { 3 });
    for (ki, (k, n)) in kn.iter().enumerate() {
        for &len in &lens {
            if ki > 0 && !thorough && !(len % 7 == ki || len < 70) { continue; }
            let m = if len % 5 == 4 { vec![0xffu8; len] } else { rng.bytes(len) };
            out.search_evaluations += 1;
            let e = sb_easy(len + 16, &m, n, k);
            let s = sodium::secretbox_easy(&m, n, k);
            let ec = match &e { Outcome::Ok(c) => c.clone(), _ => { out.hit("secretbox.easy.fails", format!("len {}", len), json!({"op":"secretbox.easy","len":len})); continue; } };
            if ec != s {
                out.hit("secretbox.easy.differs-from-libsodium", format!("len {}", len), json!({"op":"secretbox.easy","key":hx(k),"nonce":hx(n),"msg":hx(&m),"dryoc":hx(&ec),"libsodium":hx(&s)}));
            }
            let to_model = len <= 320 && (ki == 0 || len % 16 <= 1 || len % 64 == 63);
            if to_model { out.case("secretbox.easy", &[b(&vec![SENT; len + 16]), b(&m), b(n), b(k)], &Outcome::Ok(vec![b(&ec)]), true); out.len_bucket("secretbox", len); }
            // every other form must produce the same bytes
            let every = thorough || ki == 0 || len % 16 <= 1 || len % 64 >= 63 || len < 20;
            if every {
                out.search_evaluations += 6;
                if let Outcome::Ok((c, mac)) = sb_detached(len, &m, n, k) {
                    let mut j = mac.to_vec(); j.extend_from_slice(&c);
                    if j != s { out.hit("secretbox.detached.differs-from-easy", format!("len {}", len), json!({"op":"secretbox.detached","key":hx(k),"nonce":hx(n),"msg":hx(&m)})); }
                    if to_model { out.case("secretbox.detached", &[b(&vec![SENT; len]), b(&m), b(n), b(k)], &Outcome::Ok(vec![b(&c), b(&mac)]), true); }
                    let r = sb_open_detached(&vec![SENT; len], &mac, &c, n, k);
                    if !(r.0.is_ok() && r.1 == m) { out.hit("secretbox.open_detached.roundtrip-fails", format!("len {}", len), json!({"op":"secretbox.open_detached","key":hx(k),"nonce":hx(n),"msg":hx(&m)})); }
                    if to_model { out.case("secretbox.open_detached", &[b(&vec![SENT; len]), b(&mac), b(&c), b(n), b(k)], &open_res(&r), true); }
                } else { out.hit("secretbox.detached.panics", format!("len {}", len), json!({"len":len})); }
                let mut d = m.clone(); d.extend_from_slice(&[0u8; 16]);
                let ip = sb_easy_inplace(&d, n, k);
                if ip.clone().ok().as_ref() != Some(&s) { out.hit("secretbox.easy_inplace.differs-from-easy", format!("len {}", len), json!({"op":"secretbox.easy_inplace","key":hx(k),"nonce":hx(n),"msg":hx(&m)})); }
                if to_model { out.case("secretbox.easy_inplace", &[b(&d), b(n), b(k)], &ip.map(|v| vec![Tok::B(v)]), true); }
                let r = sb_open_easy(&vec![SENT; len], &s, n, k);
                if !(r.0.is_ok() && r.1 == m) { out.hit("secretbox.open_easy.rejects-libsodium-box", format!("len {}", len), json!({"op":"secretbox.open_easy","key":hx(k),"nonce":hx(n),"box":hx(&s)})); }
                if to_model { out.case("secretbox.open_easy", &[b(&vec![SENT; len]), b(&s), b(n), b(k)], &open_res(&r), true); }
                let r = sb_open_easy_inplace(&s, n, k);
                if !(r.0.is_ok() && r.1[..len] == m[..]) { out.hit("secretbox.open_easy_inplace.roundtrip-fails", format!("len {}", len), json!({"op":"secretbox.open_easy_inplace","key":hx(k),"nonce":hx(n),"box":hx(&s)})); }
                if to_model { out.case("secretbox.open_easy_inplace", &[b(&s), b(n), b(k)], &open_res(&r), true); }
                if sodium::secretbox_open_easy(&ec, n, k).as_ref() != Some(&m) { out.hit("secretbox.libsodium-rejects-dryoc-box", format!("len {}", len), json!({"op":"secretbox.easy","key":hx(k),"nonce":hx(n),"msg":hx(&m)})); }
                // object API, Vec and stack containers
                let bx: DryocSecretBox<StackByteArray<16>, Vec<u8>> = DryocSecretBox::encrypt(&m, &StackByteArray::<24>::from(n), &StackByteArray::<32>::from(k));
                if bx.to_vec() != s { out.hit("obj.secretbox.encrypt.differs-from-libsodium", format!("len {}", len), json!({"op":"obj.DryocSecretBox.encrypt","len":len})); }
                let bytes: Vec<u8> = bx.to_bytes();
                if bytes != s { out.hit("obj.secretbox.to_bytes.differs", format!("len {}", len), json!({"len":len})); }
                match guard(|| DryocSecretBox::<StackByteArray<16>, Vec<u8>>::from_bytes(&s)) {
                    Outcome::Ok(b2) => {
                        let dm: Outcome<Vec<u8>> = guard(|| b2.decrypt(n, k));
                        if dm.ok().as_ref() != Some(&m) { out.hit("obj.secretbox.decrypt.fails", format!("len {}", len), json!({"len":len})); }
                    }
                    _ => out.hit("obj.secretbox.from_bytes.rejects-valid-box", format!("len {}", len), json!({"op":"obj.DryocSecretBox.from_bytes","len":len,"box":hx(&s)})),
                }
                let vb = dryoc::dryocsecretbox::VecBox::encrypt_to_vecbox(&m, &StackByteArray::<24>::from(n), &StackByteArray::<32>::from(k));
                if vb.clone().into_vec() != s { out.hit("obj.secretbox.into_vec.differs", format!("len {}", len), json!({"len":len})); }
                if vb.decrypt_to_vec(n, k).ok().as_ref() != Some(&m) { out.hit("obj.secretbox.decrypt_to_vec.fails", format!("len {}", len), json!({"len":len})); }
            }
        }
    }
    // public-key boxes
    let pairs = box_pairs(&mut rng, if thorough { 6 } else { 3 });
    for (pi, ((pka, ska), (pkb, skb))) in pairs.iter().enumerate() {
        let n: [u8; 24] = rng.arr();
        let shared = crypto_box_beforenm(pkb, ska);
        out.search_evaluations += 2;
        if Some(shared) != sodium::box_beforenm(pkb, ska) { out.hit("box.beforenm.differs-from-libsodium", format!("pair {}", pi), json!({"op":"box.beforenm","pk":hx(pkb),"sk":hx(ska)})); }
        if shared != crypto_box_beforenm(pka, skb) { out.hit("box.beforenm.not-symmetric", format!("pair {}", pi), json!({"op":"box.beforenm","pk":hx(pkb),"sk":hx(ska)})); }
        for &len in &lens {
            if !thorough && !(len % 3 == pi % 3 || len < 40) { continue; }
            let m = rng.bytes(len);
            out.search_evaluations += 8;
            let s = sodium::box_easy(&m, &n, pkb, ska).unwrap();
            let e = guard(|| { let mut c = vec![SENT; len + 16]; crypto_box_easy(&mut c, &m, &n, pkb, ska).map(|_| c) });
            if e.clone().ok().as_ref() != Some(&s) { out.hit("box.easy.differs-from-libsodium", format!("len {}", len), json!({"op":"box.easy","pk":hx(pkb),"sk":hx(ska),"nonce":hx(&n),"msg":hx(&m)})); }
            // = secretbox under the precomputed key
            if sb_easy(len + 16, &m, &n, &shared).ok().as_ref() != Some(&s) { out.hit("box.easy.differs-from-secretbox-afternm", format!("len {}", len), json!({"len":len})); }
            let mut d = m.clone(); d.extend_from_slice(&[0u8; 16]);
            let ip = guard(|| { let mut dd = d.clone(); crypto_box_easy_inplace(&mut dd, &n, pkb, ska).map(|_| dd) });
            if ip.ok().as_ref() != Some(&s) { out.hit("box.easy_inplace.differs-from-easy", format!("len {}", len), json!({"len":len})); }
            let det = guard_total(|| { let mut c = vec![SENT; len]; let mut mac = [0u8; 16]; crypto_box_detached(&mut c, &mut mac, &m, &n, pkb, ska); (c, mac) });
            if let Outcome::Ok((c, mac)) = &det {
                let mut j = mac.to_vec(); j.extend_from_slice(c);
                if j != s { out.hit("box.detached.differs-from-easy", format!("len {}", len), json!({"len":len})); }
                let od = guard(|| { let mut mm = vec![SENT; len]; crypto_box_open_detached(&mut mm, mac, c, &n, pka, skb).map(|_| mm) });
                if od.ok().as_ref() != Some(&m) { out.hit("box.open_detached.roundtrip-fails", format!("len {}", len), json!({"len":len})); }
                let oda = guard(|| { let mut mm = vec![SENT; len]; crypto_box_open_detached_afternm(&mut mm, mac, c, &n, &shared).map(|_| mm) });
                if oda.ok().as_ref() != Some(&m) { out.hit("box.open_detached_afternm.roundtrip-fails", format!("len {}", len), json!({"len":len})); }
            } else { out.hit("box.detached.panics", format!("len {}", len), json!({"len":len})); }
            let o = guard(|| { let mut mm = vec![SENT; len]; crypto_box_open_easy(&mut mm, &s, &n, pka, skb).map(|_| mm) });
            if o.ok().as_ref() != Some(&m) { out.hit("box.open_easy.rejects-libsodium-box", format!("len {}", len), json!({"op":"box.open_easy","pk":hx(pka),"sk":hx(skb),"nonce":hx(&n),"box":hx(&s)})); }
            let oi = guard(|| { let mut dd = s.clone(); crypto_box_open_easy_inplace(&mut dd, &n, pka, skb).map(|_| dd) });
            if oi.ok().map(|v| v[..len].to_vec()).as_ref() != Some(&m) { out.hit("box.open_easy_inplace.roundtrip-fails", format!("len {}", len), json!({"len":len})); }
            // the public-key forms through the model (X25519 in the extracted model is slow: a few lengths per pair)
            if [0usize, 1, 16, 63, 64, 65].contains(&len) && (thorough || pi == 0 || len <= 1) {
                out.case("box.easy", &[b(&vec![SENT; len + 16]), b(&m), b(&n), b(pkb), b(ska)], &e.clone().map(|v| vec![Tok::B(v)]), true);
                let r = { let mut mm = vec![SENT; len]; let r = guard(|| crypto_box_open_easy(&mut mm, &s, &n, pka, skb)); (r, mm) };
                out.case("box.open_easy", &[b(&vec![SENT; len]), b(&s), b(&n), b(pka), b(skb)], &open_res(&r), true);
                // a buffer that is too short for the box: Err, not a panic
                let short = guard(|| { let mut c = vec![SENT; 15]; crypto_box_easy(&mut c, &m, &n, pkb, ska).map(|_| c) });
                out.case("box.easy", &[b(&vec![SENT; 15]), b(&m), b(&n), b(pkb), b(ska)], &short.map(|v| vec![Tok::B(v)]), false);
                // sealing with a scripted ephemeral key (the generator hook of C11), so that the model can follow
                if len <= 64 {
                    let esk: [u8; 32] = rng.arr();
                    { let mut g = crate::c11::STREAM.lock().unwrap(); g.0 = esk.to_vec(); g.0.extend_from_slice(&[0u8; 64]); g.1 = 0; g.2.clear(); }
                    dryoc::rng::verif_set_rng(Some(crate::c11::hook));
                    let sealed = guard(|| { let mut c = vec![SENT; len + 48]; crypto_box_seal(&mut c, &m, pkb).map(|_| c) });
                    dryoc::rng::verif_set_rng(None);
                    out.case("box.seal", &[b(&vec![SENT; len + 48]), b(&m), b(pkb), b(&esk)], &sealed.clone().map(|v| vec![Tok::B(v)]), true);
                    if let Outcome::Ok(c) = &sealed {
                        let r = { let mut mm = vec![SENT; len]; let r = guard(|| crypto_box_seal_open(&mut mm, c, pkb, skb)); (r, mm) };
                        out.case("box.seal_open", &[b(&vec![SENT; len]), b(c), b(pkb), b(skb)], &open_res(&r), true);
                        // a sealed box opened into a buffer of the wrong size, and a truncated one
                        let r = { let mut mm = vec![SENT; len + 1]; let r = guard(|| crypto_box_seal_open(&mut mm, c, pkb, skb)); (r, mm) };
                        out.case("box.seal_open", &[b(&vec![SENT; len + 1]), b(c), b(pkb), b(skb)], &open_res(&r), false);
                        let r = { let mut mm = vec![SENT; 0]; let r = guard(|| crypto_box_seal_open(&mut mm, &c[..47], pkb, skb)); (r, mm) };
                        out.case("box.seal_open", &[b(&[]), b(&c[..47]), b(pkb), b(skb)], &open_res(&r), false);
                    }
                }
            }
            // sealed boxes: dryoc seals, both open; libsodium seals, dryoc opens
            if len <= 320 && (thorough || len % 4 == 0) {
                out.search_evaluations += 4;
                let sealed = guard(|| { let mut c = vec![SENT; len + 48]; crypto_box_seal(&mut c, &m, pkb).map(|_| c) });
                match sealed {
                    Outcome::Ok(c) => {
                        if sodium::box_seal_open(&c, pkb, skb).as_ref() != Some(&m) { out.hit("box.seal.libsodium-cannot-open", format!("len {}", len), json!({"op":"box.seal","pk":hx(pkb),"sk":hx(skb),"sealed":hx(&c),"msg":hx(&m)})); }
                        let o = guard(|| { let mut mm = vec![SENT; len]; crypto_box_seal_open(&mut mm, &c, pkb, skb).map(|_| mm) });
                        if o.ok().as_ref() != Some(&m) { out.hit("box.seal_open.roundtrip-fails", format!("len {}", len), json!({"len":len})); }
                    }
                    _ => out.hit("box.seal.fails", format!("len {}", len), json!({"len":len})),
                }
                let sc = sodium::box_seal(&m, pkb);
                let o = guard(|| { let mut mm = vec![SENT; len]; crypto_box_seal_open(&mut mm, &sc, pkb, skb).map(|_| mm) });
                if o.ok().as_ref() != Some(&m) { out.hit("box.seal_open.rejects-libsodium-sealed-box", format!("len {}", len), json!({"op":"box.seal_open","pk":hx(pkb),"sk":hx(skb),"sealed":hx(&sc)})); }
                // object API
                let kp: BoxKeyPair = BoxKeyPair::from_secret_key(StackByteArray::<32>::from(skb));
                let sb: dryoc::dryocbox::VecBox = DryocBox::seal_to_vecbox(&m, &StackByteArray::<32>::from(pkb)).unwrap();
                let sv = sb.to_vec();
                if sodium::box_seal_open(&sv, pkb, skb).as_ref() != Some(&m) { out.hit("obj.box.seal.libsodium-cannot-open", format!("len {}", len), json!({"len":len})); }
                if sb.unseal_to_vec(&kp).ok().as_ref() != Some(&m) { out.hit("obj.box.unseal.roundtrip-fails", format!("len {}", len), json!({"len":len})); }
                match guard(|| dryoc::dryocbox::VecBox::from_sealed_bytes(&sc)) {
                    Outcome::Ok(b2) => { if b2.unseal_to_vec(&kp).ok().as_ref() != Some(&m) { out.hit("obj.box.unseal.rejects-libsodium-sealed-box", format!("len {}", len), json!({"len":len})); } }
                    _ => out.hit("obj.box.from_sealed_bytes.rejects-valid", format!("len {}", len), json!({"len":len})),
                }
            }
            if thorough || len % 5 == 0 || len < 20 {
                out.search_evaluations += 3;
                let vb = dryoc::dryocbox::VecBox::encrypt_to_vecbox(&m, &StackByteArray::<24>::from(&n), &StackByteArray::<32>::from(pkb), &StackByteArray::<32>::from(ska)).unwrap();
                if vb.to_vec() != s { out.hit("obj.box.encrypt.differs-from-libsodium", format!("len {}", len), json!({"len":len})); }
                let tb: Vec<u8> = vb.to_bytes();
                if tb != s { out.hit("obj.box.to_bytes.differs", format!("len {}", len), json!({"len":len})); }
                match guard(|| dryoc::dryocbox::VecBox::from_bytes(&s)) {
                    Outcome::Ok(b2) => { if b2.decrypt_to_vec(&StackByteArray::<24>::from(&n), &StackByteArray::<32>::from(pka), &StackByteArray::<32>::from(skb)).ok().as_ref() != Some(&m) { out.hit("obj.box.decrypt.fails", format!("len {}", len), json!({"len":len})); } }
                    _ => out.hit("obj.box.from_bytes.rejects-valid-box", format!("len {}", len), json!({"op":"obj.DryocBox.from_bytes","len":len})),
                }
                let pre = dryoc::precalc::PrecalcSecretKey::<StackByteArray<32>>::precalculate(&StackByteArray::<32>::from(pkb), &StackByteArray::<32>::from(ska));
                let pb = dryoc::dryocbox::VecBox::precalc_encrypt_to_vecbox(&m, &StackByteArray::<24>::from(&n), &pre).unwrap();
                if pb.to_vec() != s { out.hit("obj.box.precalc_encrypt.differs-from-libsodium", format!("len {}", len), json!({"len":len})); }
                // the key pair's own precalculation entry point
                let kpa: BoxKeyPair = BoxKeyPair::from_secret_key(StackByteArray::<32>::from(ska));
                let pre2 = kpa.precalculate(&StackByteArray::<32>::from(pkb));
                out.search_evaluations += 1;
                if Some(*pre2.as_array()) != sodium::box_beforenm(pkb, ska) { out.hit("obj.keypair.precalculate.differs-from-libsodium", format!("len {}", len), json!({"op":"obj.KeyPair.precalculate","pk":hx(pkb),"sk":hx(ska)})); }
                match guard(|| dryoc::dryocbox::VecBox::from_bytes(&s).and_then(|bx| bx.precalc_decrypt_to_vec(&StackByteArray::<24>::from(&n), &pre2))) {
                    Outcome::Ok(mm) if mm == m => {}
                    _ => out.hit("obj.box.precalc_decrypt.rejects-libsodium-box", format!("len {}", len), json!({"op":"obj.DryocBox.precalc_decrypt","len":len})),
                }
            }
        }
    }
    crate::objapi::boxes(out, &mut rng);
    crate::objapi::classic_box_forms(out, &mut rng);
    #[cfg(feature = "nightly")]
    crate::c18::containers(out, &mut rng, false);
    crate::objapi::conversions(out, &mut rng);
    crate::objapi::seeded_object_keys(out, &mut rng);
    crate::consts::check(out, &["CRYPTO_BOX", "CRYPTO_SECRETBOX"]);
}

/// One tamper family over secretbox / box / sealed box: every single-bit flip of every component,
/// every truncation, a family of extensions.  c02: the open must fail (and the untouched input must
/// be accepted); c17: after a failure the caller's buffer is unchanged or zero.
pub fn tamper(out: &mut Out, tier: &str, seed: u64, c02: bool, c17: bool) {
    let mut rng = Rng::new(seed, "tamper");
    let thorough = tier == "thorough";
    let maxlen = if thorough { 200 } else { 40 };
    let (k, n): ([u8; 32], [u8; 24]) = (rng.arr(), rng.arr());
    let ((pka, ska), (pkb, skb)) = box_pairs(&mut rng, 1)[0];
    let prop = if c02 { "C02" } else { "C17" };
    let mut check = |out: &mut Out, form: &str, what: &str, len: usize, before: &[u8], r: &(Outcome<()>, Vec<u8>), replay: serde_json::Value, authentic: bool| {
        out.search_evaluations += 1;
        if authentic {
            if c02 && !r.0.is_ok() { out.hit(&format!("{}.rejects-untampered", form), format!("len {}", len), replay); }
            return;
        }
        if r.0.is_panic() { out.hit(&format!("{}.panics-on-tampered", form), format!("{} len {}", what, len), replay.clone()); }
        if c02 && r.0.is_ok() { out.hit(&format!("{}.accepts-tampered.{}", form, what.split(' ').next().unwrap_or("")), format!("{} len {}", what, len), replay.clone()); }
        if c17 && r.0.is_err() {
            let unchanged = r.1 == before;
            let zero = r.1.iter().all(|x| *x == 0);
            if !(unchanged || zero) { out.hit(&format!("{}.buffer-after-failed-open", form), format!("{} len {}: caller buffer holds data derived from the rejected ciphertext", what, len), replay); }
        }
        let _ = prop;
    };
    // every length up to maxlen with every mutation; a few lengths around the 4096-byte marks with a sample of them
    let tamper_lens: Vec<usize> = (0..=maxlen).chain([4095usize, 4096, 4097, 8193, if thorough { 70001 } else { 12301 }]).collect();
    for len in tamper_lens {
        let big = len > maxlen;
        let m = rng.bytes(len);
        let sbx = sodium::secretbox_easy(&m, &n, &k);
        let bbx = sodium::box_easy(&m, &n, &pkb, &ska).unwrap();
        let sealed = sodium::box_seal(&m, &pkb);
        // mutation lists: (description, mutated box, mutated nonce, mutated key)
        let mut muts: Vec<(String, Vec<u8>, [u8; 24], [u8; 32])> = vec![];
        let nbits = sbx.len() * 8;
        let bit_list: Vec<usize> = if !big { (0..nbits).collect() } else { vec![0, 77, 127, 128, 129, 128 + 8 * 4095 + 3, 128 + 8 * 4096, nbits / 2, nbits - 9, nbits - 1].into_iter().filter(|b| *b < nbits).collect() };
        for bit in bit_list { let mut c = sbx.clone(); c[bit / 8] ^= 1 << (bit % 8); muts.push((format!("{} bit {}", if bit < 128 { "tag" } else { "body" }, bit), c, n, k)); }
        for bit in (0..192).step_by(if big { 61 } else { 1 }) { let mut nn = n; nn[bit / 8] ^= 1 << (bit % 8); muts.push((format!("nonce bit {}", bit), sbx.clone(), nn, k)); }
        for bit in (0..256).step_by(if big { 97 } else { 1 }) { let mut kk = k; kk[bit / 8] ^= 1 << (bit % 8); muts.push((format!("key bit {}", bit), sbx.clone(), n, kk)); }
        let trunc_list: Vec<usize> = if !big { (0..sbx.len()).collect() } else { vec![0, 15, 16, 17, 4096, 4112, sbx.len() - 1].into_iter().filter(|t| *t < sbx.len()).collect() };
        for t in trunc_list { muts.push((format!("truncated to {}", t), sbx[..t].to_vec(), n, k)); }
        for e in (1..=17).chain([64usize]) { let mut c = sbx.clone(); c.extend(rng.bytes(e)); muts.push((format!("extended by {}", e), c, n, k)); let mut c = sbx.clone(); c.extend(vec![0u8; e]); muts.push((format!("extended-zero by {}", e), c, n, k)); }
        // untampered first
        let auth: Vec<(String, Vec<u8>, [u8; 24], [u8; 32])> = vec![("untampered".into(), sbx.clone(), n, k)];
        for (idx, (what, c, nn, kk)) in auth.iter().chain(muts.iter()).enumerate() {
            let authentic = idx == 0;
            let mlen = c.len().saturating_sub(16);
            let rp = json!({"op":"secretbox.open","form":"","key":hx(kk),"nonce":hx(nn),"box":hx(c),"what":what});
            // open_easy (copying): message buffer pre-filled with a sentinel
            let before = vec![SENT; mlen];
            let r = sb_open_easy(&before, c, nn, kk);
            check(out, "secretbox.open_easy", what, len, &before, &r, rp.clone(), authentic);
            let model = len <= 24 && (authentic || idx % 13 == 0 || what.starts_with("trunc") || what.starts_with("ext"));
            if model { out.case("secretbox.open_easy", &[b(&before), b(c), b(nn), b(kk)], &open_res(&r), !what.starts_with("trunc")); }
            // the same (shorter) box opened into a buffer sized for the message the receiver expects
            if !authentic && mlen < len {
                let before2: Vec<u8> = (0..len).map(|k| 0x80 | (k as u8 & 0x3f)).collect();   // position-dependent sentinel
                let r2 = sb_open_easy(&before2, c, nn, kk);
                out.search_evaluations += 1;
                if c17 && r2.0.is_err() {
                    let ok = r2.1 == before2 || (r2.1[..mlen].iter().all(|x| *x == 0) && r2.1[mlen..] == before2[mlen..]);
                    if !ok { out.hit("secretbox.open_easy.buffer-after-failed-open.larger-buffer", format!("{} len {}: a buffer of {} bytes holds {} after the failed open", what, len, len, hx(&r2.1)), rp.clone()); }
                }
                if c02 && r2.0.is_ok() { out.hit("secretbox.open_easy.accepts-tampered.larger-buffer", format!("{} len {}", what, len), rp.clone()); }
                if len <= 24 && what.starts_with("trunc") && c.len() >= 16 { out.case("secretbox.open_easy", &[b(&before2), b(c), b(nn), b(kk)], &open_res(&r2), true); }
            }
            // a (longer) box opened into the buffer sized for the message the receiver expects: an error, not a panic, nothing written
            if !authentic && mlen > len && !big {
                let before3: Vec<u8> = (0..len).map(|k| 0x40 | (k as u8 & 0x3f)).collect();
                let r3 = sb_open_easy(&before3, c, nn, kk);
                out.search_evaluations += 1;
                if r3.0.is_panic() { out.hit("secretbox.open_easy.panics-on-tampered.buffer-sized-for-expected-message", format!("{} len {}: a box of {} bytes opened into a buffer of {} bytes", what, len, c.len(), len), rp.clone()); }
                if c02 && r3.0.is_ok() { out.hit("secretbox.open_easy.accepts-tampered.buffer-sized-for-expected-message", format!("{} len {}", what, len), rp.clone()); }
                if c17 && r3.0.is_err() && r3.1 != before3 && !r3.1.iter().all(|x| *x == 0) { out.hit("secretbox.open_easy.buffer-after-failed-open.smaller-buffer", format!("{} len {}", what, len), rp.clone()); }
                if len <= 24 && what.starts_with("extended by 1") { out.case("secretbox.open_easy", &[b(&before3), b(c), b(nn), b(kk)], &open_res(&r3), true); }
            }
            // open_easy_inplace: buffer holds the box
            let r = sb_open_easy_inplace(c, nn, kk);
            check(out, "secretbox.open_easy_inplace", what, len, c, &r, rp.clone(), authentic);
            if model { out.case("secretbox.open_easy_inplace", &[b(c), b(nn), b(kk)], &open_res(&r), true); }
            if c.len() >= 16 {
                let mac: [u8; 16] = c[..16].try_into().unwrap();
                let r = sb_open_detached(&before, &mac, &c[16..], nn, kk);
                check(out, "secretbox.open_detached", what, len, &before, &r, rp.clone(), authentic);
                if model { out.case("secretbox.open_detached", &[b(&before), b(&mac), b(&c[16..]), b(nn), b(kk)], &open_res(&r), true); }
                let mut d = c[16..].to_vec();
                let rr = guard(|| dryoc::classic::crypto_box::crypto_box_open_detached_afternm_inplace(&mut d, &mac, nn, kk));
                check(out, "box.open_detached_afternm_inplace", what, len, &c[16..], &(rr, d), rp.clone(), authentic);
            }
            // object API: returns only an error
            if c02 {
                out.search_evaluations += 1;
                let r = guard(|| DryocSecretBox::<StackByteArray<16>, Vec<u8>>::from_bytes(c).and_then(|bx| bx.decrypt::<Vec<u8>, _, _>(nn, kk)));
                if authentic { if r.ok().as_ref() != Some(&m) { out.hit("obj.secretbox.rejects-untampered", format!("len {}", len), rp.clone()); } }
                else if r.is_ok() { out.hit("obj.secretbox.accepts-tampered", format!("{} len {}", what, len), rp.clone()); }
                else if r.is_panic() { out.hit("obj.secretbox.panics-on-tampered", format!("{} len {}", what, len), rp.clone()); }
            }
        }
        // the object API assembled from parts held in Vecs: an authenticator (or ephemeral key) that is too long or too
        // short is a changed ciphertext too -- an error, never a message and never a panic
        if c02 && !big && len % 4 == 1 {
            use dryoc::dryocbox::DryocBox;
            let (n_a, k_a) = (StackByteArray::<24>::from(&n), StackByteArray::<32>::from(&k));
            let resize = |v: &[u8], how: usize| -> Vec<u8> { match how { 0 => [v.to_vec(), vec![0xaa]].concat(), 1 => [v.to_vec(), vec![0]].concat(), 2 => v[..v.len() - 1].to_vec(), _ => vec![] } };
            let names = ["extended by one byte", "extended by a zero byte", "one byte short", "empty"];
            for how in 0..4 {
                out.search_evaluations += 4;
                let t2 = resize(&sbx[..16], how);
                let r = guard(|| { let bx: DryocSecretBox<Vec<u8>, Vec<u8>> = DryocSecretBox::from_parts(t2.clone(), sbx[16..].to_vec()); bx.decrypt::<Vec<u8>, _, _>(&n_a, &k_a) });
                let rp = json!({"op":"obj.DryocSecretBox<Vec,Vec>.from_parts+decrypt","tag":hx(&t2),"data":hx(&sbx[16..]),"key":hx(&k),"nonce":hx(&n),"what":names[how]});
                if r.is_ok() { out.hit("obj.secretbox.accepts-tampered.tag-length", format!("len {}: authenticator {}", len, names[how]), rp.clone()); }
                if r.is_panic() { out.hit("obj.secretbox.panics-on-tampered.tag-length", format!("len {}: authenticator {}", len, names[how]), rp.clone()); }
                let bt2 = resize(&bbx[..16], how);
                let r = guard(|| { let bx: DryocBox<Vec<u8>, Vec<u8>, Vec<u8>> = DryocBox::from_parts(bt2.clone(), bbx[16..].to_vec(), None); bx.decrypt::<_, _, _, Vec<u8>>(&n_a, &StackByteArray::<32>::from(&pka), &StackByteArray::<32>::from(&skb)) });
                let rp = json!({"op":"obj.DryocBox<Vec,Vec,Vec>.from_parts+decrypt","tag":hx(&bt2),"data":hx(&bbx[16..]),"nonce":hx(&n),"what":names[how]});
                if r.is_ok() { out.hit("obj.box.accepts-tampered.tag-length", format!("len {}: authenticator {}", len, names[how]), rp.clone()); }
                if r.is_panic() { out.hit("obj.box.panics-on-tampered.tag-length", format!("len {}: authenticator {}", len, names[how]), rp.clone()); }
                let kpb: BoxKeyPair = BoxKeyPair::from_secret_key(StackByteArray::<32>::from(&skb));
                let st2 = resize(&sealed[32..48], how);
                let r = guard(|| { let bx: DryocBox<Vec<u8>, Vec<u8>, Vec<u8>> = DryocBox::from_parts(st2.clone(), sealed[48..].to_vec(), Some(sealed[..32].to_vec())); bx.unseal::<_, _, Vec<u8>>(&kpb) });
                let rp = json!({"op":"obj.DryocBox<Vec,Vec,Vec>.from_parts+unseal","tag":hx(&st2),"epk":hx(&sealed[..32]),"data":hx(&sealed[48..]),"what":names[how]});
                if r.is_ok() { out.hit("obj.seal.accepts-tampered.tag-length", format!("len {}: authenticator {}", len, names[how]), rp.clone()); }
                if r.is_panic() { out.hit("obj.seal.panics-on-tampered.tag-length", format!("len {}: authenticator {}", len, names[how]), rp.clone()); }
                let e2 = resize(&sealed[..32], how);
                let r = guard(|| { let bx: DryocBox<Vec<u8>, Vec<u8>, Vec<u8>> = DryocBox::from_parts(sealed[32..48].to_vec(), sealed[48..].to_vec(), Some(e2.clone())); bx.unseal::<_, _, Vec<u8>>(&kpb) });
                let rp = json!({"op":"obj.DryocBox<Vec,Vec,Vec>.from_parts+unseal","tag":hx(&sealed[32..48]),"epk":hx(&e2),"data":hx(&sealed[48..]),"what":names[how]});
                if r.is_ok() { out.hit("obj.seal.accepts-tampered.epk-length", format!("len {}: ephemeral key {}", len, names[how]), rp.clone()); }
                if r.is_panic() { out.hit("obj.seal.panics-on-tampered.epk-length", format!("len {}: ephemeral key {}", len, names[how]), rp.clone()); }
            }
        }
        // a truncation that removes only zero bytes of the ciphertext, opened into a ZEROED buffer sized for the message the
        // receiver expects: the bytes the attacker removed are already "there", so only an open that authenticates exactly
        // the bytes received rejects it (message tails chosen so that the last t ciphertext bytes are zero)
        if c02 && !big && len >= 1 {
            for t in 1..=len.min(3) {
                out.search_evaluations += 2;
                let ks = sodium::stream_xsalsa20(32 + len, &n, &k);
                let mut m2 = m.clone(); for j in (len - t)..len { m2[j] = ks[32 + j]; }
                let b2 = sodium::secretbox_easy(&m2, &n, &k);
                if b2[b2.len() - t..].iter().any(|x| *x != 0) { out.hit("harness.zero-tail-construction-failed", format!("len {}", len), json!({"len":len})); continue; }
                let tr = b2[..b2.len() - t].to_vec();
                let zeroed = vec![0u8; len];
                let r = sb_open_easy(&zeroed, &tr, &n, &k);
                let rp = json!({"op":"secretbox.open_easy","key":hx(&k),"nonce":hx(&n),"box":hx(&tr),"what":format!("truncated by {} zero bytes, opened into a zeroed buffer of {} bytes", t, len),"message_buffer":hx(&zeroed),"full_box":hx(&b2)});
                if r.0.is_ok() { out.hit("secretbox.open_easy.accepts-tampered.truncated-zero-tail", format!("len {}: a box truncated by {} (zero) bytes opens into a zeroed buffer of the expected size, returning {}", len, t, hx(&r.1)), rp.clone()); }
                if len <= 24 { out.case("secretbox.open_easy", &[b(&zeroed), b(&tr), b(&n), b(&k)], &open_res(&r), true); }
                // the public-key form (same keystream under the precomputed key)
                if let Some(bk) = sodium::box_beforenm(&pkb, &ska) {
                    let ksb = sodium::stream_xsalsa20(32 + len, &n, &bk);
                    let mut m3 = m.clone(); for j in (len - t)..len { m3[j] = ksb[32 + j]; }
                    let bb2 = sodium::box_easy(&m3, &n, &pkb, &ska).unwrap();
                    let trb = bb2[..bb2.len() - t].to_vec();
                    let mut zb = vec![0u8; len];
                    let rb = guard(|| crypto_box_open_easy(&mut zb, &trb, &n, &pka, &skb));
                    if rb.is_ok() { out.hit("box.open_easy.accepts-tampered.truncated-zero-tail", format!("len {}: a box truncated by {} (zero) bytes opens into a zeroed buffer of the expected size", len, t), json!({"op":"box.open_easy","nonce":hx(&n),"pk":hx(&pka),"sk":hx(&skb),"box":hx(&trb),"message_buffer_len":len})); }
                }
            }
        }
        // the error value itself: two different corruptions of the same box must give the same text, and
        // the text must not contain the authenticator of the rejected ciphertext, the plaintext or the key
        if c17 && len >= 1 {
            use dryoc::classic::crypto_secretbox::crypto_secretbox_open_easy;
            let etext = |c: &[u8]| -> Option<String> { let mut mm = vec![SENT; c.len().saturating_sub(16)]; crypto_secretbox_open_easy(&mut mm, c, &n, &k).err().map(|e| format!("{} / {:?}", e, e)) };
            let mut c1 = sbx.clone(); c1[16] ^= 1;            // body bit
            let mut c2 = sbx.clone(); let l = c2.len(); c2[l - 1] ^= 0x40;   // another body (or tag) bit
            let mut c3 = sbx.clone(); c3[0] ^= 1;             // tag bit
            let texts: Vec<Option<String>> = vec![etext(&c1), etext(&c2), etext(&c3)];
            out.search_evaluations += 3;
            let rp = json!({"op":"secretbox.open_easy.error-text","key":hx(&k),"nonce":hx(&n),"box":hx(&sbx),"texts":texts});
            if texts.iter().any(|t| t.is_none()) { out.hit("secretbox.open_easy.accepts-tampered", format!("len {}", len), rp.clone()); }
            else if texts[0] != texts[1] || texts[0] != texts[2] { out.hit("secretbox.open_easy.error-text-depends-on-ciphertext", format!("len {}: {:?}", len, texts), rp.clone()); }
            // the authenticator a forger needs: Poly1305 of the corrupted ciphertext under the one-time key
            let ks = sodium::stream_xsalsa20(32, &n, &k);
            let otk: [u8; 32] = ks[..32].try_into().unwrap();
            for (c, t) in [(&c1, &texts[0]), (&c2, &texts[1])] {
                let want = sodium::onetimeauth(&c[16..], &otk);
                if let Some(t) = t { let low = t.to_lowercase(); if low.contains(&hx(&want)) || (m.len() >= 8 && low.contains(&hx(&m))) || low.contains(&hx(&k)) {
                    out.hit("secretbox.open_easy.error-text-leaks", format!("len {}: the error text contains the authenticator of the rejected ciphertext (or the plaintext / key)", len), rp.clone()); } }
            }
            // box form
            let btext = |c: &[u8]| -> Option<String> { let mut mm = vec![SENT; c.len().saturating_sub(16)]; crypto_box_open_easy(&mut mm, c, &n, &pka, &skb).err().map(|e| format!("{} / {:?}", e, e)) };
            let mut b1 = bbx.clone(); b1[16] ^= 1; let mut b2 = bbx.clone(); b2[0] ^= 1;
            out.search_evaluations += 2;
            if btext(&b1) != btext(&b2) { out.hit("box.open_easy.error-text-depends-on-ciphertext", format!("len {}", len), json!({"op":"box.open_easy.error-text","box":hx(&bbx)})); }
        }
        // public-key box: tag/body bits, nonce, truncation, extension; sealed: epk bits too
        let mut bm: Vec<(String, Vec<u8>, [u8; 24])> = vec![("untampered".into(), bbx.clone(), n)];
        let bbits = bbx.len() * 8;
        let bbit_list: Vec<usize> = if !big { (0..bbits).collect() } else { vec![0, 127, 128, 128 + 8 * 4095 + 3, 128 + 8 * 4096, bbits / 2, bbits - 1].into_iter().filter(|b| *b < bbits).collect() };
        for bit in bbit_list { let mut c = bbx.clone(); c[bit / 8] ^= 1 << (bit % 8); bm.push((format!("{} bit {}", if bit < 128 { "tag" } else { "body" }, bit), c, n)); }
        for bit in (0..192).step_by(if big { 67 } else if thorough { 1 } else { 5 }) { let mut nn = n; nn[bit / 8] ^= 1 << (bit % 8); bm.push((format!("nonce bit {}", bit), bbx.clone(), nn)); }
        let btrunc: Vec<usize> = if !big { (0..bbx.len()).collect() } else { vec![0, 15, 16, 17, 4096, 4112, bbx.len() - 1].into_iter().filter(|t| *t < bbx.len()).collect() };
        for t in btrunc { bm.push((format!("truncated to {}", t), bbx[..t].to_vec(), n)); }
        for e in [1usize, 2, 15, 16, 17, 64] { let mut c = bbx.clone(); c.extend(rng.bytes(e)); bm.push((format!("extended by {}", e), c, n)); }
        for (idx, (what, c, nn)) in bm.iter().enumerate() {
            let authentic = idx == 0;
            let mlen = c.len().saturating_sub(16);
            let rp = json!({"op":"box.open_easy","pk":hx(&pka),"sk":hx(&skb),"nonce":hx(nn),"box":hx(c),"what":what});
            let before = vec![SENT; mlen];
            let mut mm = before.clone();
            let r = guard(|| crypto_box_open_easy(&mut mm, c, nn, &pka, &skb));
            check(out, "box.open_easy", what, len, &before, &(r, mm), rp.clone(), authentic);
            let mut d = c.clone();
            let r = guard(|| crypto_box_open_easy_inplace(&mut d, nn, &pka, &skb));
            check(out, "box.open_easy_inplace", what, len, c, &(r, d), rp.clone(), authentic);
            if c.len() >= 16 {
                let mac: [u8; 16] = c[..16].try_into().unwrap();
                let mut mm = before.clone();
                let r = guard(|| crypto_box_open_detached(&mut mm, &mac, &c[16..], nn, &pka, &skb));
                check(out, "box.open_detached", what, len, &before, &(r, mm), rp.clone(), authentic);
                let mut d = c[16..].to_vec();
                let r = guard(|| crypto_box_open_detached_inplace(&mut d, &mac, nn, &pka, &skb));
                check(out, "box.open_detached_inplace", what, len, &c[16..], &(r, d), rp.clone(), authentic);
            }
            if c02 {
                out.search_evaluations += 1;
                let r = guard(|| dryoc::dryocbox::VecBox::from_bytes(c).and_then(|bx| bx.decrypt_to_vec(&StackByteArray::<24>::from(nn), &StackByteArray::<32>::from(&pka), &StackByteArray::<32>::from(&skb))));
                if authentic { if r.ok().as_ref() != Some(&m) { out.hit("obj.box.rejects-untampered", format!("len {}", len), rp.clone()); } }
                else if r.is_ok() { out.hit("obj.box.accepts-tampered", format!("{} len {}", what, len), rp.clone()); }
                else if r.is_panic() { out.hit("obj.box.panics-on-tampered", format!("{} len {}", what, len), rp.clone()); }
            }
        }
        // wrong keys for the public-key box (sender public key / recipient secret key bits)
        for bit in (0..256).step_by(if thorough { 1 } else { 3 }) {
            let mut pk2 = pka; pk2[bit / 8] ^= 1 << (bit % 8);
            let mut sk2 = skb; sk2[bit / 8] ^= 1 << (bit % 8);
            let before = vec![SENT; len];
            for (what, pk, sk) in [("sender-public-key", &pk2, &skb), ("recipient-secret-key", &pka, &sk2)] {
                // bit 255 of an X25519 public key and the clamped bits of a secret key do not change the
                // key: skip the flips that provably give the same shared secret
                if what == "sender-public-key" && bit == 255 { continue; }
                if what == "recipient-secret-key" && (bit < 3 || bit == 254 || bit == 255) { continue; }
                let mut mm = before.clone();
                let r = guard(|| crypto_box_open_easy(&mut mm, &bbx, &n, pk, sk));
                let rp = json!({"op":"box.open_easy","pk":hx(pk),"sk":hx(sk),"nonce":hx(&n),"box":hx(&bbx),"what":format!("{} bit {}", what, bit)});
                check(out, "box.open_easy", &format!("{} bit {}", what, bit), len, &before, &(r, mm), rp, false);
            }
        }
        let mut sm: Vec<(String, Vec<u8>)> = vec![("untampered".into(), sealed.clone())];
        let sbits = sealed.len() * 8;
        let sbit_list: Vec<usize> = if !big { (0..sbits).collect() } else { vec![0, 255, 256, 383, 384, 384 + 8 * 4095 + 3, 384 + 8 * 4096, sbits / 2, sbits - 1].into_iter().filter(|b| *b < sbits).collect() };
        for bit in sbit_list { let mut c = sealed.clone(); c[bit / 8] ^= 1 << (bit % 8); sm.push((format!("{} bit {}", if bit < 256 { "epk" } else if bit < 384 { "tag" } else { "body" }, bit), c)); }
        let strunc: Vec<usize> = if !big { (0..sealed.len()).collect() } else { vec![0, 31, 32, 47, 48, 49, 4096 + 48, sealed.len() - 1].into_iter().filter(|t| *t < sealed.len()).collect() };
        for t in strunc { sm.push((format!("truncated to {}", t), sealed[..t].to_vec())); }
        for e in [1usize, 2, 15, 16, 17, 64] { let mut c = sealed.clone(); c.extend(rng.bytes(e)); sm.push((format!("extended by {}", e), c)); }
        let kp: BoxKeyPair = BoxKeyPair::from_secret_key(StackByteArray::<32>::from(&skb));
        for (idx, (what, c)) in sm.iter().enumerate() {
            let authentic = idx == 0;
            let mlen = c.len().saturating_sub(48);
            let rp = json!({"op":"box.seal_open","pk":hx(&pkb),"sk":hx(&skb),"sealed":hx(c),"what":what});
            let before = vec![SENT; mlen];
            let mut mm = before.clone();
            let r = guard(|| crypto_box_seal_open(&mut mm, c, &pkb, &skb));
            check(out, "box.seal_open", what, len, &before, &(r, mm), rp.clone(), authentic);
            if c02 {
                out.search_evaluations += 1;
                let r = guard(|| dryoc::dryocbox::VecBox::from_sealed_bytes(c).and_then(|bx| bx.unseal_to_vec(&kp)));
                if authentic { if r.ok().as_ref() != Some(&m) { out.hit("obj.box.unseal.rejects-untampered", format!("len {}", len), rp.clone()); } }
                else if r.is_ok() { out.hit("obj.box.unseal.accepts-tampered", format!("{} len {}", what, len), rp.clone()); }
                else if r.is_panic() { out.hit("obj.box.unseal.panics-on-tampered", format!("{} len {}", what, len), rp.clone()); }
            }
        }
    }
}

pub fn run_c02(out: &mut Out, tier: &str, seed: u64) {
    tamper(out, tier, seed, true, false);
    crate::stream::tamper_stream(out, tier, seed, true, false);
    { let mut rng = Rng::new(seed, "c02-extra"); crate::objapi::conversions(out, &mut rng); }
}
pub fn run_c17(out: &mut Out, tier: &str, seed: u64) {
    tamper(out, tier, seed, false, true);
    crate::stream::tamper_stream(out, tier, seed, false, true);
    { let mut rng = Rng::new(seed, "c17-unaligned"); unaligned_buffers(out, &mut rng); }
}

/// C17: the caller's message buffer is a window inside a larger allocation (any address, not only the start of a Vec): after a
/// refused open every byte of the window is as it was or zero, and nothing outside the window is touched
fn unaligned_buffers(out: &mut Out, rng: &mut Rng) {
    let (k, n): ([u8; 32], [u8; 24]) = (rng.arr(), rng.arr());
    let ((pka, ska), (pkb, skb)) = box_pairs(rng, 1)[0];
    for mlen in [1usize, 2, 3, 7, 8, 9, 15, 16, 17, 31, 40] {
        let m = rng.bytes(mlen);
        let mut sbx = sodium::secretbox_easy(&m, &n, &k); sbx[3] ^= 0x10;
        let mut bbx = sodium::box_easy(&m, &n, &pkb, &ska).unwrap(); let l = bbx.len(); bbx[l - 1] ^= 1;
        let mut sealed = sodium::box_seal(&m, &pkb); sealed[40] ^= 2;
        for off in 0..=9usize {
            for (form, which) in [("secretbox.open_easy", 0), ("box.open_easy", 1), ("box.seal_open", 2)] {
                out.search_evaluations += 1;
                let mut backing = vec![SENT; off + mlen + 9];
                let r = guard(|| match which { 0 => crypto_secretbox_open_easy(&mut backing[off..off + mlen], &sbx, &n, &k), 1 => crypto_box_open_easy(&mut backing[off..off + mlen], &bbx, &n, &pka, &skb), _ => crypto_box_seal_open(&mut backing[off..off + mlen], &sealed, &pkb, &skb) });
                let rp = json!({"op":"open-into-window","form":form,"mlen":mlen,"offset":off,"key":hx(&k),"nonce":hx(&n),"secretbox":hx(&sbx)});
                let w = &backing[off..off + mlen];
                if !r.is_err() { out.hit(&format!("{}.window.not-refused", form), format!("mlen {} offset {} ({})", mlen, off, r.class()), rp.clone()); continue; }
                if !(w.iter().all(|x| *x == SENT) || w.iter().all(|x| *x == 0)) { out.hit(&format!("{}.buffer-after-failed-open.window", form), format!("mlen {} at offset {} of a larger buffer: {} neither as it was nor zero", mlen, off, hx(w)), rp.clone()); }
                if backing[..off].iter().any(|x| *x != SENT) || backing[off + mlen..].iter().any(|x| *x != SENT) { out.hit(&format!("{}.writes-outside-the-buffer", form), format!("mlen {} offset {}", mlen, off), rp.clone()); }
            }
        }
    }
}
