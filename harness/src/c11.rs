//! C11: every randomised operation draws fresh randomness on every call.
use crate::common::*;
use crate::sodium;
use dryoc::types::*;
use serde_json::json;
use std::sync::Mutex;

pub static STREAM: Mutex<(Vec<u8>, usize, Vec<(usize, usize)>)> = Mutex::new((Vec::new(), 0, Vec::new()));

pub fn hook(dest: &mut [u8]) {
    let mut g = STREAM.lock().unwrap();
    let c = g.1;
    let n = dest.len();
    for (k, d) in dest.iter_mut().enumerate() { *d = g.0[(c + k) % g.0.len()]; }
    g.1 = c + n;
    g.2.push((c, n));
}

#[derive(Clone, Copy, PartialEq)]
enum Kind { Ident, Pair, SignSeed, SealedEpk }

struct Entry { name: &'static str, kind: Kind, n: usize, call: Box<dyn Fn() -> Vec<u8>> }

fn b64dec(s: &str) -> Vec<u8> {
    let tab = b"ABCDEFGHIJKLMNOPQRSTUVWXYZabcdefghijklmnopqrstuvwxyz0123456789+/";
    let mut out = vec![]; let mut acc = 0u32; let mut bits = 0;
    for c in s.bytes() { if let Some(v) = tab.iter().position(|x| *x == c) { acc = (acc << 6) | v as u32; bits += 6; if bits >= 8 { bits -= 8; out.push((acc >> bits) as u8); acc &= (1 << bits) - 1; } } }
    out
}

fn entries() -> Vec<Entry> {
    use dryoc::classic::*;
    let mut v: Vec<Entry> = vec![];
    macro_rules! e { ($name:expr, $kind:expr, $n:expr, $body:expr) => { v.push(Entry { name: $name, kind: $kind, n: $n, call: Box::new(move || $body) }); } }
    e!("crypto_secretbox_keygen", Kind::Ident, 32, crypto_secretbox::crypto_secretbox_keygen().to_vec());
    e!("crypto_secretbox_keygen_inplace", Kind::Ident, 32, { let mut k = [0u8; 32]; crypto_secretbox::crypto_secretbox_keygen_inplace(&mut k); k.to_vec() });
    e!("crypto_box_keypair", Kind::Pair, 32, { let (pk, sk) = crypto_box::crypto_box_keypair(); [pk.to_vec(), sk.to_vec()].concat() });
    e!("crypto_box_keypair_inplace", Kind::Pair, 32, { let (mut pk, mut sk) = ([0u8; 32], [0u8; 32]); crypto_box::crypto_box_keypair_inplace(&mut pk, &mut sk); [pk.to_vec(), sk.to_vec()].concat() });
    e!("crypto_kx_keypair", Kind::Pair, 32, { let (pk, sk) = crypto_kx::crypto_kx_keypair(); [pk.to_vec(), sk.to_vec()].concat() });
    e!("crypto_kdf_keygen", Kind::Ident, 32, crypto_kdf::crypto_kdf_keygen().to_vec());
    e!("crypto_auth_keygen", Kind::Ident, 32, crypto_auth::crypto_auth_keygen().to_vec());
    e!("crypto_onetimeauth_keygen", Kind::Ident, 32, crypto_onetimeauth::crypto_onetimeauth_keygen().to_vec());
    e!("crypto_shorthash_keygen", Kind::Ident, 16, crypto_shorthash::crypto_shorthash_keygen().to_vec());
    e!("crypto_generichash_keygen", Kind::Ident, 32, crypto_generichash::crypto_generichash_keygen().to_vec());
    e!("crypto_secretstream_keygen", Kind::Ident, 32, { let mut k = [0u8; 32]; crypto_secretstream_xchacha20poly1305::crypto_secretstream_xchacha20poly1305_keygen(&mut k); k.to_vec() });
    e!("crypto_secretstream_init_push.header", Kind::Ident, 24, { let mut st = crypto_secretstream_xchacha20poly1305::State::new(); let mut h = [0u8; 24]; crypto_secretstream_xchacha20poly1305::crypto_secretstream_xchacha20poly1305_init_push(&mut st, &mut h, &[7u8; 32]); h.to_vec() });
    e!("crypto_sign_keypair", Kind::SignSeed, 32, { let (pk, sk) = crypto_sign::crypto_sign_keypair(); [pk.to_vec(), sk.to_vec()].concat() });
    e!("crypto_sign_keypair_inplace", Kind::SignSeed, 32, { let (mut pk, mut sk) = ([0u8; 32], [0u8; 64]); crypto_sign::crypto_sign_keypair_inplace(&mut pk, &mut sk); [pk.to_vec(), sk.to_vec()].concat() });
    e!("crypto_box_seal.ephemeral", Kind::SealedEpk, 32, { let mut c = vec![0u8; 48 + 3]; crypto_box::crypto_box_seal(&mut c, b"abc", &sodium::scalarmult_base(&[9u8; 32])).unwrap(); c[..32].to_vec() });
    e!("crypto_pwhash_str.salt", Kind::Ident, 16, { let s = crypto_pwhash::crypto_pwhash_str(b"pw", 1, 8192).unwrap(); let f: Vec<&str> = s.split('$').collect(); b64dec(f[4]) });
    e!("StackByteArray<32>::gen", Kind::Ident, 32, StackByteArray::<32>::gen().to_vec());
    e!("StackByteArray<24>::gen (nonce)", Kind::Ident, 24, StackByteArray::<24>::gen().to_vec());
    e!("[u8; 32]::gen", Kind::Ident, 32, <[u8; 32]>::gen().to_vec());
    e!("[u8; 24]::gen", Kind::Ident, 24, <[u8; 24]>::gen().to_vec());
    e!("randombytes_buf(40)", Kind::Ident, 40, dryoc::rng::randombytes_buf(40));
    e!("randombytes_buf(300)", Kind::Ident, 300, dryoc::rng::randombytes_buf(300));
    e!("copy_randombytes(257)", Kind::Ident, 257, { let mut x = vec![0u8; 257]; dryoc::rng::copy_randombytes(&mut x); x });
    e!("KeyPair::gen", Kind::Pair, 32, { let kp = dryoc::keypair::StackKeyPair::gen(); [kp.public_key.to_vec(), kp.secret_key.to_vec()].concat() });
    e!("kx::KeyPair::gen", Kind::Pair, 32, { let kp = dryoc::kx::KeyPair::gen(); [kp.public_key.to_vec(), kp.secret_key.to_vec()].concat() });
    e!("SigningKeyPair::gen", Kind::SignSeed, 32, { let kp = dryoc::sign::SigningKeyPair::<dryoc::sign::PublicKey, dryoc::sign::SecretKey>::gen(); [kp.public_key.to_vec(), kp.secret_key.to_vec()].concat() });
    e!("KeyPair::gen_with_defaults", Kind::Pair, 32, { let kp = dryoc::keypair::StackKeyPair::gen_with_defaults(); [kp.public_key.to_vec(), kp.secret_key.to_vec()].concat() });
    e!("SigningKeyPair::gen_with_defaults", Kind::SignSeed, 32, { let kp = dryoc::sign::SigningKeyPair::<dryoc::sign::PublicKey, dryoc::sign::SecretKey>::gen_with_defaults(); [kp.public_key.to_vec(), kp.secret_key.to_vec()].concat() });
    e!("Kdf::gen_with_defaults (key, context)", Kind::Ident, 40, { let (k, c) = dryoc::kdf::StackKdf::gen_with_defaults().into_parts(); [k.to_vec(), c.to_vec()].concat() });
    #[cfg(feature = "nightly")]
    {
        use dryoc::protected::*;
        e!("HeapByteArray<32>::gen_locked", Kind::Ident, 32, HeapByteArray::<32>::gen_locked().unwrap().as_slice().to_vec());
        e!("HeapByteArray<32>::gen_readonly_locked", Kind::Ident, 32, HeapByteArray::<32>::gen_readonly_locked().unwrap().as_slice().to_vec());
        e!("HeapByteArray<24>::gen_readonly_locked", Kind::Ident, 24, HeapByteArray::<24>::gen_readonly_locked().unwrap().as_slice().to_vec());
        e!("Locked<HeapByteArray<32>>::gen", Kind::Ident, 32, <Locked<HeapByteArray<32>> as NewByteArray<32>>::gen().as_slice().to_vec());
        e!("HeapByteArray<32>::gen", Kind::Ident, 32, <HeapByteArray<32> as NewByteArray<32>>::gen().as_slice().to_vec());
        e!("KeyPair::gen_locked_keypair", Kind::Pair, 32, { let kp = dryoc::keypair::KeyPair::<Locked<HeapByteArray<32>>, Locked<HeapByteArray<32>>>::gen_locked_keypair().unwrap(); [kp.public_key.as_slice().to_vec(), kp.secret_key.as_slice().to_vec()].concat() });
        e!("KeyPair::gen_readonly_locked_keypair", Kind::Pair, 32, { let kp = dryoc::keypair::KeyPair::<LockedRO<HeapByteArray<32>>, LockedRO<HeapByteArray<32>>>::gen_readonly_locked_keypair().unwrap(); [kp.public_key.as_slice().to_vec(), kp.secret_key.as_slice().to_vec()].concat() });
    }
    e!("Kdf::gen (key, context)", Kind::Ident, 40, { let (k, c) = dryoc::kdf::StackKdf::gen().into_parts(); [k.to_vec(), c.to_vec()].concat() });
    e!("DryocBox::seal.ephemeral", Kind::SealedEpk, 32, { let bx = dryoc::dryocbox::VecBox::seal_to_vecbox(b"abc", &StackByteArray::<32>::from(&sodium::scalarmult_base(&[9u8; 32]))).unwrap(); bx.to_vec()[..32].to_vec() });
    e!("DryocStream::init_push.header", Kind::Ident, 24, { let (_s, h): (dryoc::dryocstream::DryocStream<dryoc::dryocstream::Push>, StackByteArray<24>) = dryoc::dryocstream::DryocStream::init_push(&StackByteArray::<32>::from(&[7u8; 32])); h.to_vec() });
    e!("PwHash::hash.salt(16)", Kind::Ident, 16, { let p = dryoc::pwhash::VecPwHash::hash(&b"pw".to_vec(), dryoc::pwhash::Config::interactive().with_opslimit(1).with_memlimit(8192)).unwrap(); p.into_parts().1 });
    e!("PwHash::hash.salt(33)", Kind::Ident, 33, { let p = dryoc::pwhash::VecPwHash::hash(&b"pw".to_vec(), dryoc::pwhash::Config::interactive().with_opslimit(1).with_memlimit(8192).with_salt_length(33)).unwrap(); p.into_parts().1 });
    v
}

pub fn run(out: &mut Out, tier: &str, seed: u64) {
    let mut rng = Rng::new(seed, "c11");
    let thorough = tier == "thorough";
    let ents = entries();
    // ---- data flow under the hook: which bytes does each operation consume, and what does it return
    { let mut g = STREAM.lock().unwrap(); g.0 = rng.bytes(1 << 16); g.1 = 0; g.2.clear(); }
    dryoc::rng::verif_set_rng(Some(hook));
    let stream: Vec<u8> = STREAM.lock().unwrap().0.clone();
    let rounds = if thorough { 6 } else { 2 };
    for round in 0..rounds {
        // a sequence of calls: every entry point once, in a PRNG order
        let mut order: Vec<usize> = (0..ents.len()).collect();
        for k in (1..order.len()).rev() { let j = rng.below(k as u64 + 1) as usize; order.swap(k, j); }
        let start = { let mut g = STREAM.lock().unwrap(); g.1 = rng.below(1000) as usize; g.2.clear(); g.1 };
        let mut ops: Vec<Tok> = vec![]; let mut results: Vec<Tok> = vec![];
        let mut expected_cursor = start;
        for &ei in &order {
            let e = &ents[ei];
            let before = STREAM.lock().unwrap().2.len();
            let val = guard_total(|| (e.call)());
            let log: Vec<(usize, usize)> = STREAM.lock().unwrap().2[before..].to_vec();
            out.search_evaluations += 1;
            let drawn: usize = log.iter().map(|x| x.1).sum();
            let rp = json!({"op":"rng.dataflow","entry":e.name,"drawn":drawn,"expected":e.n,"log":log});
            let val = match val { Outcome::Ok(v) => v, _ => { out.hit("rng.entry-point-panics", e.name.into(), rp); continue; } };
            if drawn == 0 { out.hit("rng.no-randomness-drawn", format!("{} draws nothing from the generator", e.name), rp.clone()); expected_cursor += 0; continue; }
            if drawn != e.n { out.hit("rng.wrong-amount-drawn", format!("{} drew {} bytes, documented {}", e.name, drawn, e.n), rp.clone()); }
            if log.first().map(|x| x.0) != Some(expected_cursor) { out.hit("rng.draws-not-consecutive", format!("{}", e.name), rp.clone()); }
            let slice: Vec<u8> = (0..drawn).map(|k| stream[(expected_cursor + k) % stream.len()]).collect();
            expected_cursor += drawn;
            let ok = match e.kind {
                Kind::Ident => val == slice,
                Kind::Pair => val.len() == 64 && val[32..] == slice[..] && val[..32] == sodium::scalarmult_base(&slice[..32].try_into().unwrap())[..],
                Kind::SignSeed => { let (pk, sk) = sodium::sign_seed_keypair(&slice[..32].try_into().unwrap()); val.len() == 96 && val[..32] == pk[..] && val[32..] == sk[..] }
                Kind::SealedEpk => val == sodium::scalarmult_base(&slice[..32].try_into().unwrap()).to_vec(),
            };
            if !ok { out.hit("rng.output-not-a-function-of-its-draw", format!("{}: returned value is not the documented function of the {} bytes it drew", e.name, drawn), json!({"op":"rng.dataflow","entry":e.name,"value":hx(&val),"draw":hx(&slice)})); }
            if drawn == e.n && (e.kind == Kind::Ident || (e.kind == Kind::Pair && round == 0 && ei % 11 == 2)) {
                ops.push(Tok::L(vec![Tok::I(if e.kind == Kind::Ident { 0 } else { 1 }), i(e.n)]));
                results.push(b(&val));
            } else if drawn == e.n {
                // non-modelled function of the draw: the model is told the draw is consumed (identity) and compares the slice
                ops.push(Tok::L(vec![Tok::I(0), i(e.n)]));
                results.push(b(&slice));
            }
        }
        let total: usize = expected_cursor - start;
        out.case("rng.history", &[b(&stream[start..start + total + 8]), i(0), Tok::L(ops)], &Outcome::Ok(vec![Tok::L(results), i(total)]), true);
    }
    dryoc::rng::verif_set_rng(None);
    // ---- hook off: statistical freshness of what the OS generator delivers through each entry point
    let calls = if thorough { 4096 } else { 384 };
    for e in ents.iter() {
        let slow = e.name.contains("pwhash") || e.name.contains("PwHash");
        let n = if slow { calls / 6 } else { calls };
        let mut seen = std::collections::HashSet::new();
        let mut first: Option<Vec<u8>> = None;
        let mut varies: Vec<bool> = vec![];
        for k in 0..n {
            let v = match guard_total(|| (e.call)()) { Outcome::Ok(v) => v, _ => { out.hit("rng.entry-point-panics", e.name.into(), json!({"entry":e.name})); break; } };
            out.search_evaluations += 1;
            // for key pairs the fresh part is the secret half / the visible public key
            let fresh: Vec<u8> = match e.kind { Kind::Pair => v[32..].to_vec(), Kind::SignSeed => v[32..64].to_vec(), _ => v.clone() };
            if fresh.iter().all(|x| *x == 0) { out.hit("rng.all-zero-value", format!("{} returned an all-zero value (call {})", e.name, k), json!({"op":"rng.fresh","entry":e.name,"call":k})); break; }
            if !seen.insert(fresh.clone()) { out.hit("rng.value-repeats", format!("{} returned the same value twice within {} calls", e.name, k + 1), json!({"op":"rng.fresh","entry":e.name,"value":hx(&fresh)})); break; }
            match &first { None => { varies = vec![false; fresh.len()]; first = Some(fresh); } Some(f0) => { for (j, x) in fresh.iter().enumerate() { if j < f0.len() && *x != f0[j] { varies[j] = true; } } } }
        }
        if seen.len() >= 64 {
            if let Some(j) = varies.iter().position(|x| !*x) {
                out.hit("rng.constant-byte-position", format!("{}: byte position {} of {} never changed over {} calls", e.name, j, varies.len(), seen.len()), json!({"op":"rng.fresh","entry":e.name,"position":j,"value":first.as_ref().map(|f| hx(f))}));
            }
        }
    }
    out.notes.insert("entry_points".into(), json!(ents.iter().map(|e| e.name).collect::<Vec<_>>()));
    // ---- when the operating system's generator fails (getrandom made to return EIO by a seccomp filter, in a child process):
    // no randomised operation may hand back a value as if nothing had happened -- it must not return at all (the crate panics)
    {
        use std::io::{Read, Write};
        let mut fds = [0i32; 2]; unsafe { libc::pipe(fds.as_mut_ptr()); }
        let pid = unsafe { libc::fork() };
        if pid == 0 {
            unsafe { libc::close(fds[0]); libc::alarm(60); }
            let mut w = unsafe { <std::fs::File as std::os::unix::io::FromRawFd>::from_raw_fd(fds[1]) };
            #[repr(C)] struct Filt { code: u16, jt: u8, jf: u8, k: u32 }
            #[repr(C)] struct Prog { len: u16, filter: *const Filt }
            let nr = libc::SYS_getrandom as u32;
            let filt = [Filt { code: 0x20, jt: 0, jf: 0, k: 0 },                       // A = seccomp_data.nr
                        Filt { code: 0x15, jt: 0, jf: 1, k: nr },                       // if A == getrandom
                        Filt { code: 0x06, jt: 0, jf: 0, k: 0x0005_0000 | (libc::EIO as u32) },   //   return ERRNO(EIO)
                        Filt { code: 0x06, jt: 0, jf: 0, k: 0x7fff_0000 }];             // else ALLOW
            let prog = Prog { len: 4, filter: filt.as_ptr() };
            let ok = unsafe { libc::prctl(libc::PR_SET_NO_NEW_PRIVS, 1, 0, 0, 0) == 0 && libc::prctl(libc::PR_SET_SECCOMP, 2 /* SECCOMP_MODE_FILTER */, &prog as *const Prog) == 0 };
            if !ok { let _ = w.write_all(b"nofilter\n"); unsafe { libc::_exit(0); } }
            // make sure the filter bites
            let mut probe = [0u8; 8];
            let pr = unsafe { libc::syscall(libc::SYS_getrandom, probe.as_mut_ptr(), 8usize, 0u32) };
            if pr >= 0 { let _ = w.write_all(b"nofilter\n"); unsafe { libc::_exit(0); } }
            dryoc::rng::verif_set_rng(None);
            std::panic::set_hook(Box::new(|_| {}));
            let calls: Vec<(&str, Box<dyn Fn() -> Vec<u8>>)> = vec![
                ("randombytes_buf(32)", Box::new(|| dryoc::rng::randombytes_buf(32))),
                ("copy_randombytes(24)", Box::new(|| { let mut x = vec![0u8; 24]; dryoc::rng::copy_randombytes(&mut x); x })),
                ("StackByteArray<32>::gen", Box::new(|| StackByteArray::<32>::gen().to_vec())),
                ("crypto_secretbox_keygen", Box::new(|| dryoc::classic::crypto_secretbox::crypto_secretbox_keygen().to_vec())),
                ("crypto_box_keypair", Box::new(|| { let (pk, sk) = dryoc::classic::crypto_box::crypto_box_keypair(); [pk.to_vec(), sk.to_vec()].concat() })),
                ("crypto_kdf_keygen", Box::new(|| dryoc::classic::crypto_kdf::crypto_kdf_keygen().to_vec())),
            ];
            for (name, f) in calls.iter() {
                let r = std::panic::catch_unwind(std::panic::AssertUnwindSafe(|| f()));
                let line = match r { Err(_) => format!("{}|panic\n", name), Ok(v) => format!("{}|returned|{}\n", name, hx(&v)) };
                let _ = w.write_all(line.as_bytes());
            }
            let _ = w.flush(); unsafe { libc::_exit(0); }
        }
        unsafe { libc::close(fds[1]); }
        let mut r = unsafe { <std::fs::File as std::os::unix::io::FromRawFd>::from_raw_fd(fds[0]) };
        let mut t = String::new(); let _ = r.read_to_string(&mut t);
        let mut st = 0; unsafe { libc::waitpid(pid, &mut st, 0); }
        if t.starts_with("nofilter") || t.is_empty() { out.notes.insert("os_generator_failure".into(), json!("not exercised: the seccomp filter could not be installed here")); }
        else {
            out.notes.insert("os_generator_failure".into(), json!("getrandom -> EIO under a seccomp filter"));
            for l in t.lines() { let f: Vec<&str> = l.split('|').collect(); out.search_evaluations += 1;
                if f.len() >= 3 && f[1] == "returned" { out.hit("rng.returns-a-value-although-the-os-generator-failed", format!("{} returned {} while getrandom fails with EIO", f[0], f[2]), json!({"op":"rng.os-failure","entry":f[0],"value":f[2]})); } }
        }
    }
}
