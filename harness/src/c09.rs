//! C09: Argon2i / Argon2id password hashing = libsodium / RFC 9106 for every parameter set;
//! out-of-range parameters are rejected; PwHash::verify accepts the right password only.
use crate::common::*;
use crate::sodium;
use dryoc::classic::crypto_pwhash::{crypto_pwhash, PasswordHashAlgorithm};
use serde_json::json;

fn alg(a: i32) -> PasswordHashAlgorithm { if a == 1 { PasswordHashAlgorithm::Argon2i13 } else { PasswordHashAlgorithm::Argon2id13 } }

pub fn dry(outlen: usize, pw: &[u8], salt: &[u8], ops: u64, mem: usize, a: i32) -> Outcome<Vec<u8>> {
    guard(|| { let mut o = vec![0u8; outlen]; crypto_pwhash(&mut o, pw, salt, ops, mem, alg(a)).map(|_| o) })
}

/// the same call in a forked child with a deadline: a parameter set that must be rejected must be
/// rejected promptly (a narrowing bug can turn it into billions of passes); None = still running
pub fn dry_deadline(outlen: usize, pw: &[u8], salt: &[u8], ops: u64, mem: usize, a: i32, secs: u64) -> Option<Outcome<Vec<u8>>> {
    use std::io::{Read, Write};
    let mut fds = [0i32; 2];
    unsafe { libc::pipe(fds.as_mut_ptr()); }
    let pid = unsafe { libc::fork() };
    if pid == 0 {
        unsafe { libc::close(fds[0]); }
        let mut w = unsafe { <std::fs::File as std::os::unix::io::FromRawFd>::from_raw_fd(fds[1]) };
        let r = dry(outlen, pw, salt, ops, mem, a);
        let line = match r { Outcome::Ok(v) => format!("ok {}\n", hx(&v)), Outcome::Err => "err\n".to_string(), Outcome::Panic => "panic\n".to_string() };
        let _ = w.write_all(line.as_bytes()); let _ = w.flush();
        unsafe { libc::_exit(0); }
    }
    unsafe { libc::close(fds[1]); }
    let start = std::time::Instant::now();
    let mut st = 0; let mut done = false;
    while start.elapsed().as_secs() < secs {
        let r = unsafe { libc::waitpid(pid, &mut st, libc::WNOHANG) };
        if r == pid { done = true; break; }
        std::thread::sleep(std::time::Duration::from_millis(20));
    }
    if !done { unsafe { libc::kill(pid, libc::SIGKILL); libc::waitpid(pid, &mut st, 0); libc::close(fds[0]); } return None; }
    let mut r = unsafe { <std::fs::File as std::os::unix::io::FromRawFd>::from_raw_fd(fds[0]) };
    let mut t = String::new(); let _ = r.read_to_string(&mut t);
    let t = t.trim();
    Some(if t == "err" { Outcome::Err } else if let Some(h) = t.strip_prefix("ok ") { Outcome::Ok(unhx(h)) } else { Outcome::Panic })
}
fn unhx(s: &str) -> Vec<u8> { (0..s.len() / 2).map(|k| u8::from_str_radix(&s[2 * k..2 * k + 2], 16).unwrap_or(0)).collect() }

/// output lengths: every residue mod 32 around 64, 96, 128 and the far end
pub fn outlens(thorough: bool) -> Vec<usize> {
    let mut v: Vec<usize> = vec![16, 17, 24, 31, 32, 33, 48];
    v.extend(60..=70); v.extend(94..=98); v.extend(126..=130);
    if thorough { v.extend(71..=93); v.extend(99..=125); v.extend(131..=161); v.extend([191, 192, 193, 255, 256, 257, 511, 512, 513, 1023, 1024, 1025, 1056, 1057, 1087, 1088, 1089, 1100]); }
    else { v.extend([159, 160, 161, 1024, 1025, 1100]); }
    v
}
pub fn pwlens(thorough: bool) -> Vec<usize> {
    if thorough { (0..=300).collect() } else { vec![0, 1, 2, 15, 16, 17, 54, 55, 56, 57, 63, 64, 65, 119, 120, 121, 127, 128, 129, 183, 184, 185, 255, 256, 300] }
}
/// memory sizes in bytes: multiples and non-multiples of 4 KiB, and non-multiples of 1 KiB
pub fn mems(thorough: bool) -> Vec<usize> {
    let mut v: Vec<usize> = vec![8192, 8193, 9 * 1024, 10 * 1024, 11 * 1024, 12 * 1024 - 1, 12 * 1024, 13 * 1024 + 5, 15 * 1024, 16 * 1024, 17 * 1024, 31 * 1024, 32 * 1024, 33 * 1024, 63 * 1024, 64 * 1024, 65 * 1024, 100 * 1024, 255 * 1024, 1023 * 1024, 1024 * 1024, 1025 * 1024];
    if thorough { for k in 8..=64usize { v.push(k * 1024); } v.extend([2 * 1024 * 1024 + 3 * 1024, 3 * 1024 * 1024 + 1024, 4 * 1024 * 1024 - 1024]); }
    v
}

fn compare(out: &mut Out, family: &str, outlen: usize, pw: &[u8], salt: &[u8], ops: u64, mem: usize, a: i32, to_model: bool) {
    let d = if family.starts_with("out-of-range") {
        match dry_deadline(outlen, pw, salt, ops, mem, a, 20) {
            Some(d) => d,
            None => { out.search_evaluations += 1;
                out.hit(&format!("pwhash.not-rejected.{}", family), format!("still hashing after 20 s: outlen {} saltlen {} ops {} mem {} alg {}", outlen, salt.len(), ops, mem, a),
                    json!({"op":"pwhash.hash","outlen":outlen,"password":hx(pw),"salt":hx(salt),"opslimit":ops.to_string(),"memlimit":mem.to_string(),"alg":a,"dryoc":"no result within 20 s"}));
                return; }
        }
    } else { dry(outlen, pw, salt, ops, mem, a) };
    out.search_evaluations += 1;
    let rp = json!({"op":"pwhash.hash","outlen":outlen,"password":hx(pw),"salt":hx(salt),"opslimit":ops.to_string(),"memlimit":mem.to_string(),"alg":a,"dryoc":format!("{:?}", d.clone().map(|v| hx(&v)))});
    if d == Outcome::Panic { out.hit(&format!("pwhash.panics.{}", family), format!("outlen {} pwlen {} saltlen {} ops {} mem {} alg {}", outlen, pw.len(), salt.len(), ops, mem, a), rp.clone()); }
    // libsodium is the reference where it applies: 16-byte salt, and t >= 3 for Argon2i
    if salt.len() == 16 && !(a == 1 && ops < 3) {
        let mut s16 = [0u8; 16]; s16.copy_from_slice(salt);
        let s = sodium::pwhash(outlen, pw, &s16, ops, mem, a);
        match (&d, &s) {
            (Outcome::Ok(x), Some(y)) if x == y => {}
            (Outcome::Err, None) => {}
            (Outcome::Ok(_), Some(_)) => out.hit(&format!("pwhash.differs-from-libsodium.{}", family), format!("outlen {} pwlen {} ops {} mem {} alg {}", outlen, pw.len(), ops, mem, a), rp.clone()),
            (Outcome::Panic, _) => {}
            _ => out.hit(&format!("pwhash.accept-reject-differs.{}", family), format!("outlen {} ops {} mem {} alg {}: dryoc {} libsodium {}", outlen, ops, mem, a, d.class(), s.is_some()), rp.clone()),
        }
    }
    if to_model {
        let args = [i(outlen), b(pw), b(salt), Tok::B(ops.to_le_bytes().to_vec()), Tok::B((mem as u64).to_le_bytes().to_vec()), i(a as usize)];
        out.case("pwhash.hash", &args, &d.map(|v| vec![Tok::B(v)]), true);
        out.len_bucket("outlen", outlen); out.len_bucket("password", pw.len());
    }
}

pub fn run(out: &mut Out, tier: &str, seed: u64) {
    let mut rng = Rng::new(seed, "c09");
    let thorough = tier == "thorough";
    let salt: [u8; 16] = rng.arr();
    let pw = rng.bytes(23);
    // 1. output lengths (smallest memory, so the model can follow every one)
    for (k, ol) in outlens(thorough).iter().enumerate() {
        for a in [1, 2] {
            let ops = if a == 1 { 3 } else { 1 };
            compare(out, "outlen", *ol, &pw, &salt, ops, 8192, a, a == 2 || k % 4 == 0 || thorough);
        }
    }
    // 2. password lengths
    for (k, pl) in pwlens(thorough).iter().enumerate() {
        let p = rng.bytes(*pl);
        compare(out, "pwlen", 32, &p, &salt, 1, 8192, 2, k % 3 == 0 || *pl < 3);
        if k % 5 == 0 { compare(out, "pwlen", 32, &p, &salt, 3, 8192, 1, false); }
    }
    // 3. pass counts x memory sizes (the model follows the small ones)
    for (k, m) in mems(thorough).iter().enumerate() {
        for t in 1..=6u64 {
            if !thorough && *m > 128 * 1024 && t > 2 { continue; }
            for a in [1, 2] {
                let small = *m <= 17 * 1024 && t <= 2 || (*m <= 33 * 1024 && t == 1 && k % 2 == 0);
                let to_model = small && (a == 2 || t <= 1 || k % 3 == 0);
                compare(out, if *m % 4096 == 0 { "grid.mem-multiple-of-4k" } else { "grid.mem-not-multiple-of-4k" }, 32, &pw, &salt, t, *m, a, to_model);
            }
        }
    }
    // 4. salts that libsodium's fixed-size interface cannot take: against the model only
    for sl in [8usize, 9, 15, 17, 32, 64, 100] {
        let s = rng.bytes(sl);
        compare(out, "salt-length", 32, &pw, &s, 1, 8192, 2, true);
        compare(out, "salt-length", 40, &pw, &s, 1, 9 * 1024, 1, sl % 2 == 0);
    }
    // 5. out-of-range parameters: Err (model and libsodium)
    {
        let big_ops: Vec<u64> = vec![0, (1u64 << 32) - 1 + 1, (1u64 << 32) + 1, (1u64 << 32) + 3, (1u64 << 33) + 2, u64::MAX];
        for ops in big_ops { compare(out, "out-of-range.opslimit", 32, &pw, &salt, ops, 8192, 2, true); }
        let big_mem: Vec<usize> = vec![0, 1, 1024, 8191, 4398046510080 + 1, 4398046510080 + 1024, (1usize << 42) + 8 * 1024, (1usize << 42) + 9 * 1024 + 1, (1usize << 52) + 16 * 1024, usize::MAX];
        for mem in big_mem { compare(out, "out-of-range.memlimit", 32, &pw, &salt, 1, mem, 2, true); }
        for ol in 0..16usize { compare(out, "out-of-range.outlen", ol, &pw, &salt, 1, 8192, 2, true); }
        for sl in 0..8usize { let s = rng.bytes(sl); compare(out, "out-of-range.salt", 32, &pw, &s, 1, 8192, 2, true); }
        // the edges that are in range
        compare(out, "edge.in-range", 16, &[], &salt, 1, 8192, 2, true);
        compare(out, "edge.in-range", 16, &[], &salt, 3, 8192, 1, true);
    }
    // 6. object API: hash_with_salt = classic; verify accepts the right password, rejects near misses
    {
        use dryoc::pwhash::{Config, PwHash, VecPwHash};
        let cfgs: Vec<(usize, u64, usize)> = vec![(32, 1, 8192), (16, 2, 9 * 1024), (64, 1, 13 * 1024), (65, 1, 8192), (100, 1, 8192)];
        for (hl, ops, mem) in cfgs {
            for pl in [0usize, 1, 17, 64, 129] {
                let p = rng.bytes(pl);
                // the builder calls in every order (each must keep what the others set)
                let cfg = match pl % 4 {
                    0 => Config::interactive().with_hash_length(hl).with_opslimit(ops).with_memlimit(mem),
                    1 => Config::moderate().with_opslimit(ops).with_memlimit(mem).with_hash_length(hl),
                    2 => Config::sensitive().with_memlimit(mem).with_hash_length(hl).with_salt_length(16).with_opslimit(ops),
                    _ => Config::default().with_opslimit(ops).with_salt_length(16).with_memlimit(mem).with_hash_length(hl).with_salt_length(16),
                };
                let h = guard(|| { let r: Result<VecPwHash, _> = PwHash::hash_with_salt(&p, salt.to_vec(), cfg.clone()); r });
                out.search_evaluations += 1;
                let rp = json!({"op":"obj.PwHash","hash_length":hl,"opslimit":ops,"memlimit":mem,"password":hx(&p),"salt":hx(&salt)});
                let h = match h { Outcome::Ok(h) => h, o => { out.hit("pwhash.obj.hash_with_salt.fails", format!("hash length {} -> {}", hl, o.class()), rp.clone()); continue; } };
                let (hv, _s, _c) = h.clone().into_parts();
                if Outcome::Ok(hv.clone()) != dry(hl, &p, &salt, ops, mem, 2) { out.hit("pwhash.obj.hash_with_salt.differs-from-classic", format!("hash length {}", hl), rp.clone()); }
                let args = [b(&hv), b(&salt), i(hl), Tok::B(ops.to_le_bytes().to_vec()), Tok::B((mem as u64).to_le_bytes().to_vec()), i(2), b(&p)];
                let ok = guard(|| h.verify(&p));
                if ok != Outcome::Ok(()) { out.hit("pwhash.obj.verify.rejects-right-password", format!("hash length {} password length {}", hl, pl), rp.clone()); }
                if hl == 32 || pl == 17 { out.case("pwhash.verify", &args, &ok.map(|_| vec![]), true); }
                // near misses
                let mut others: Vec<Vec<u8>> = vec![];
                if pl > 0 { let mut q = p.clone(); q[0] ^= 1; others.push(q); let mut q = p.clone(); let n = q.len(); q[n - 1] ^= 0x80; others.push(q); others.push(p[..pl - 1].to_vec()); }
                { let mut q = p.clone(); q.push(0); others.push(q); }
                if pl != 0 { others.push(vec![]); }
                for q in others {
                    let r = guard(|| h.verify(&q));
                    out.search_evaluations += 1;
                    if r == Outcome::Ok(()) { out.hit("pwhash.obj.verify.accepts-wrong-password", format!("hash length {} password length {} -> {}", hl, pl, q.len()), json!({"op":"obj.PwHash.verify","stored_for":hx(&p),"tried":hx(&q),"hash_length":hl})); }
                    if r == Outcome::Panic { out.hit("pwhash.obj.verify.panics", format!("hash length {}", hl), rp.clone()); }
                }
                // a stored hash that was truncated or extended must not verify
                for cut in [hl - 1, hl + 1] {
                    let mut hv2 = hv.clone(); hv2.resize(cut, 0);
                    let h2: VecPwHash = PwHash::from_parts(hv2, salt.to_vec(), cfg.clone());
                    let r = guard(|| h2.verify(&p));
                    out.search_evaluations += 1;
                    if r == Outcome::Ok(()) { out.hit("pwhash.obj.verify.accepts-resized-hash", format!("stored {} bytes for hash length {}", cut, hl), rp.clone()); }
                }
            }
        }
    }
    out.notes.insert("reference".into(), json!("libsodium for 16-byte salts (and t >= 3 for Argon2i); the Coq model (validated on the RFC 9106 vectors) for the rest"));
    crate::objapi::pwhash(out, &mut rng, tier == "thorough");
    crate::consts::check(out, &["CRYPTO_PWHASH"]);
    crate::objapi::pwhash_lengths(out, &mut rng);
    crate::objapi::short_hash_records(out, &mut rng);
}
