/* LD_PRELOAD interposer used by the C19 check: makes the k-th and every later
   mlock() call fail with ENOMEM (or the errno set through verif_mlock_errno).  k = 0 (default) never fails.  The harness
   sets k and reads the call counter through the two exported functions. */
#define _GNU_SOURCE
#include <dlfcn.h>
#include <errno.h>
#include <stddef.h>

static int fail_from = 0;
static int fail_errno = ENOMEM;
static int calls = 0;
static int (*real_mlock)(const void *, size_t) = 0;

void verif_mlock_set(int k) { fail_from = k; calls = 0; }
void verif_mlock_errno(int e) { fail_errno = e; }
int verif_mlock_calls(void) { return calls; }

int mlock(const void *addr, size_t len) {
    if (!real_mlock) real_mlock = (int (*)(const void *, size_t))dlsym(RTLD_NEXT, "mlock");
    calls++;
    if (fail_from > 0 && calls >= fail_from) { errno = fail_errno; return -1; }
    return real_mlock(addr, len);
}
