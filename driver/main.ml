(* Hand-written part of the model driver: tokeniser, printer, loop.
   Line in : <id> <op> <tok>...      tok ::= x<hex> | i<dec> | - | [ tok... ]
   Line out: <id> ok|err|panic <tok>...   |  <id> unknown-op *)

let rec pos_of_int (n : int) : Model.positive =
  if n = 1 then Model.XH
  else if n land 1 = 0 then Model.XO (pos_of_int (n lsr 1))
  else Model.XI (pos_of_int (n lsr 1))

let z_of_int (n : int) : Model.z =
  if n = 0 then Model.Z0 else if n > 0 then Model.Zpos (pos_of_int n) else Model.Zneg (pos_of_int (-n))

let rec int_of_pos (p : Model.positive) : int =
  match p with Model.XH -> 1 | Model.XO q -> 2 * int_of_pos q | Model.XI q -> 2 * int_of_pos q + 1

let int_of_z (v : Model.z) : int =
  match v with Model.Z0 -> 0 | Model.Zpos p -> int_of_pos p | Model.Zneg p -> - (int_of_pos p)

let byte_tab : Model.z array = Array.init 256 z_of_int

let hexval c =
  match c with
  | '0'..'9' -> Char.code c - 48
  | 'a'..'f' -> Char.code c - 87
  | 'A'..'F' -> Char.code c - 55
  | _ -> failwith "bad hex"

let bytes_of_hex (s : string) (off : int) : Model.z list =
  let n = (String.length s - off) / 2 in
  let rec go i acc =
    if i < 0 then acc
    else go (i - 1) (byte_tab.(hexval s.[off + 2*i] * 16 + hexval s.[off + 2*i + 1]) :: acc)
  in go (n - 1) []

let coq_string (s : string) : Model.string =
  let n = String.length s in
  let rec go i =
    if i >= n then Model.EmptyString
    else
      let c = Char.code s.[i] in
      let b k = (c lsr k) land 1 = 1 in
      Model.String (Model.Ascii (b 0, b 1, b 2, b 3, b 4, b 5, b 6, b 7), go (i + 1))
  in go 0

(* parse a token list; returns (tokens, rest) *)
let rec parse_toks (ws : string list) : Model.tok list * string list =
  match ws with
  | [] -> ([], [])
  | "]" :: rest -> ([], rest)
  | "[" :: rest ->
      let (inner, rest') = parse_toks rest in
      let (more, rest'') = parse_toks rest' in
      (Model.TL inner :: more, rest'')
  | "-" :: rest -> let (more, r) = parse_toks rest in (Model.TN :: more, r)
  | w :: rest when String.length w >= 1 && w.[0] = 'x' ->
      let (more, r) = parse_toks rest in (Model.TB (bytes_of_hex w 1) :: more, r)
  | w :: rest when String.length w >= 2 && w.[0] = 'i' ->
      let v = int_of_string (String.sub w 1 (String.length w - 1)) in
      let (more, r) = parse_toks rest in (Model.TI (z_of_int v) :: more, r)
  | w :: _ -> failwith ("bad token " ^ w)

let hexdig = "0123456789abcdef"

let rec print_tok (b : Buffer.t) (t : Model.tok) : unit =
  match t with
  | Model.TB l ->
      Buffer.add_char b 'x';
      List.iter (fun v -> let n = int_of_z v in
                  if n < 0 || n > 255 then failwith "model produced a non-byte";
                  Buffer.add_char b hexdig.[n lsr 4]; Buffer.add_char b hexdig.[n land 15]) l
  | Model.TI v -> Buffer.add_char b 'i'; Buffer.add_string b (string_of_int (int_of_z v))
  | Model.TN -> Buffer.add_char b '-'
  | Model.TL l -> Buffer.add_char b '['; List.iter (fun t -> Buffer.add_char b ' '; print_tok b t) l;
            Buffer.add_string b " ]"

let () =
  let b = Buffer.create 65536 in
  (try
    while true do
      let line = input_line stdin in
      let ws = List.filter (fun s -> s <> "") (String.split_on_char ' ' line) in
      match ws with
      | id :: op :: rest ->
          let (args, _) = parse_toks rest in
          Buffer.clear b;
          Buffer.add_string b id;
          (match Model.dispatch (coq_string op) args with
           | None -> Buffer.add_string b " unknown-op"
           | Some (Model.Ok l) -> Buffer.add_string b " ok";
                            List.iter (fun t -> Buffer.add_char b ' '; print_tok b t) l
           | Some Model.Err -> Buffer.add_string b " err"
           | Some Model.Panic -> Buffer.add_string b " panic");
          print_endline (Buffer.contents b)
      | _ -> ()
    done
  with End_of_file -> ())
